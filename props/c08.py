"""C08 — diagram-of-states region is total and follows the FCR/NCPR thresholds."""
import random
import z3
from fractions import Fraction as F
from vf.sx import *

ID = "C08"
TITLE = "Diagram-of-states region is total and follows the FCR/NCPR thresholds"
ASSUMPTIONS = [
    "(seq) sequence-level items: the composition (n+, n-) is fixed per item with the oracle's classes; all 20-letter spellings and arrangements "
    "are symbolic; every float comparison in phasePlotRegion is the real double comparison on the entailed counts (FD)",
    "(fp) composition-level items: Sequence.countPos/countNeg/countNeut and Sequence.len are replaced by symbolic 11-bit integers "
    "(p, n, N) with p+n<=N; FCR/NCPR/Fplus/Fminus/phasePlotRegion are encoded from their source in the solver's IEEE-754 binary64 theory "
    "(round-to-nearest-even division, exact comparisons against the source's literals)",
]
OUTSIDE = ["N above the bounds (seq: see bounds; fp: N > 200 -- N <= 1000 was decided once by cvc5 in 106 s on a hand-written query during the design phase, but the per-path encoding needs > 1 h for it)"]
NMAX = {"quick": 10, "thorough": 16}
FPMAX = {"quick": 100, "thorough": 200}
ITEM_TIMEOUT = {"quick": 400, "thorough": 3000}


def bounds(tier):
    return "(seq) every composition (n+, n-, N) with N <= %d as symbolic 20-letter sequences; (fp) every (n+, n-, N) with 1 <= N <= %d in binary64 theory" % (NMAX[tier], FPMAX[tier])


def region_exact(p, n, N):
    fcr = F(p + n, N)
    ncpr = F(p - n, N)
    if fcr < F(1, 4):
        return 1
    if fcr <= F(7, 20):
        return 2
    if abs(ncpr) < F(7, 20):
        return 3
    if p > n:
        return 5
    if n > p:
        return 4
    return None   # unreachable: |ncpr| >= 7/20 implies p != n


def items(tier, seed):
    out = comp_items(1, NMAX[tier], dict(kind="seq"))
    # composition-level binary64 items, split by ranges of N so that they run in parallel
    step = 10 if tier == "quick" else 25
    lo = 1
    fp = []
    while lo <= FPMAX[tier]:
        hi = min(FPMAX[tier], lo + step - 1)
        probes = [(0, 0, hi), (hi // 4, 0, hi), (hi // 5, hi // 10, hi), (hi // 2, hi // 3, hi), (hi, 0, hi), (0, hi, hi), ((7 * hi) // 20, 0, hi)]
        fp.append(dict(name="fp_N%d_%d" % (lo, hi), kind="fp", nmin=lo, nmax=hi, timeout=ITEM_TIMEOUT[tier], probes=probes))
        lo = hi + 1
    return fp + out


def run_item(item):
    if item["kind"] == "fp":
        from props import c08fp
        return c08fp.run_item(item)
    from localcider.sequenceParameters import SequenceParameters
    N, a, b = item["N"], item["npos"], item["nneg"]
    res = new_result()
    I = interp()
    vs, s = sym_sequence(I, N)
    I.solver.add(composition(vs, a, b))
    want = region_exact(a, b, N)
    rng = seeded_rng(N * 10007 + a * 101 + b)

    def thunk():
        sp = I.call(SequenceParameters, [s], {})
        return I.call(sp.get_phasePlotRegion, [], {})

    def cex(m):
        return dict(seq=seq_of_model(m, vs))

    def on_return(ob, val, m):
        lab = "region == %s for every sequence with (n+,n-,N)=(%d,%d,%d)" % (want, a, b, N)
        if is_sym(val):
            ob.prove(as_int(to_sym(val)) == want, lab, cex)
        else:
            ob.prove(type(val) is int and val == want, lab, lambda m_: cex(m))
        if not res["samples"]:
            res["samples"].append(dict(item=item["name"], witness=seq_of_model(m, vs), obligation=lab))
        validate(I, res, val, lambda q: SequenceParameters(q).get_phasePlotRegion(), vs, [seq_of_model(m, vs)] + comp_samples(rng, N, a, b, 1), label="get_phasePlotRegion")
    explore(I, res, thunk, on_return, cex, label=item["name"])
    return finish(I, res)


def replay(cex):
    from localcider.sequenceParameters import SequenceParameters
    if "seq" in cex:
        seq = cex["seq"]
    else:
        p, n, N = cex["p"], cex["n"], cex["N"]
        seq = "K" * p + "E" * n + "G" * (N - p - n)
    p = sum(1 for c in seq if c in T.POS)
    n = sum(1 for c in seq if c in T.NEG)
    want = region_exact(p, n, len(seq))
    try:
        got = SequenceParameters(seq).get_phasePlotRegion()
    except Exception as ex:
        return True, "get_phasePlotRegion raised %s: %s for (n+,n-,N)=(%d,%d,%d) seq=%s" % (type(ex).__name__, ex, p, n, len(seq), seq[:60])
    return (got != want or type(got) is not int), "(n+,n-,N)=(%d,%d,%d) region=%r thresholds say %r seq=%s" % (p, n, len(seq), got, want, seq[:60])


def finding_key(cex):
    if "seq" in cex:
        seq = cex["seq"]
        return "comp:%d,%d,%d" % (sum(1 for c in seq if c in T.POS), sum(1 for c in seq if c in T.NEG), len(seq))
    return "comp:%d,%d,%d" % (cex["p"], cex["n"], cex["N"])


def fallback(item):
    if item.get("kind") == "fp":
        hi = item["nmax"]
        return [dict(p=p, n=n, N=N) for (p, n, N) in item.get("probes", [])] + [dict(p=(7 * N) // 20, n=0, N=N) for N in range(item["nmin"], hi + 1) if N % 20 == 0]
    return [dict(seq=q) for q in fallback_seqs(item, 3)]
