"""C14 — sequence files parse to exactly their residues."""
import random, ast, os, tempfile, itertools
import z3
from vf.sx import *
from props.c13 import state_eq, STATE

ID = "C14"
TITLE = "Sequence files parse to exactly their residues"
ASSUMPTIONS = [
    "open(...).readlines() is replaced by a stub returning L symbolic lines of M symbolic characters each (printable ASCII 0x20-0x7E plus tab, VT, FF), every line ending in '\\n' "
    "except, optionally, the last; OS-level I/O errors are not modelled",
    "reference grammar: a line is blank, a header (first non-space character '>'), or a sequence line; a sequence line may hold the 20 letters, spaces, digits and '*'; "
    "at most one header; at most one '*', which must be the last residue character of the file",
    "nothing is asserted where the property is silent: a header that follows sequence content, files without any residue, non-space whitespace at the ends of a line",
    "the parser object used has just rejected another file that had a header (parser objects are documented as stateless)",
    "'answers every query like an object built from that string' is established as equality of the complete object state with an object constructed from the parsed string",
]
OUTSIDE = ["more / longer lines than the bound", "control characters and non-ASCII bytes inside lines", "I/O failures"]
SHAPES = {"quick": [(1, 1), (1, 2), (1, 3), (2, 1), (2, 2), (3, 1)], "thorough": [(1, 1), (1, 2), (1, 3), (1, 4), (2, 1), (2, 2), (2, 3), (3, 1), (3, 2)]}
ITEM_TIMEOUT = {"quick": 900, "thorough": 3400}
ALPHA = [chr(i) for i in range(0x20, 0x7F)] + ["\t", "\x0b", "\x0c"]
AIDX = {c: i for i, c in enumerate(ALPHA)}
SENT = -1


def bounds(tier):
    return "files of L lines x M characters for (L,M) in %r, all printable-ASCII contents, last line with and without newline" % (SHAPES[tier],)


def cls_of(ch):
    if ch in AA:
        return "A"
    if ch == " ":
        return "S"
    if ch in "0123456789":
        return "D"
    if ch == "*":
        return "X"
    if ch == ">":
        return "H"
    if ch in "\t\x0b\x0c":
        return "W"      # whitespace other than the space: removed by strip() at the ends of a line, an 'other character' inside it
    return "O"


def items(tier, seed):
    out = []
    for (L, M) in SHAPES[tier]:
        # split by the behaviour class of the first two characters of the file to spread paths over processes
        k = min(2, L * M)
        for pre in itertools.product("ASDXHOW", repeat=k):
            for nl in (True, False):
                out.append(dict(name="L%d_M%d_%s_%s" % (L, M, "".join(pre), "nl" if nl else "nonl"), L=L, M=M, prefix="".join(pre), nl=nl))
    return out


class FakeFile:
    _symx_symbolic = False

    def __init__(self, lines):
        self.lines = lines

    def __enter__(self):
        return self

    def __exit__(self, *a):
        return False

    def readlines(self):
        return list(self.lines)


def in_cls(v, cl):
    ix = [i for i, c in enumerate(ALPHA) if cls_of(c) in cl]
    return z3.Or(*[v == i for i in ix]) if ix else z3.BoolVal(False)


def reference(vs):
    """z3 description of the reference grammar over the L x M character variables.
    returns (valid, unspecified, expected guarded list [(guard, code of letter)])"""
    L = len(vs)
    header, seqline, bad, blank = [], [], [], []
    wsend = []
    for l in range(L):
        row = vs[l]
        M = len(row)
        ws = [in_cls(c, "SW") for c in row]
        inside = [z3.And(z3.Or(*[z3.Not(ws[i]) for i in range(j + 1)]), z3.Or(*[z3.Not(ws[k]) for k in range(j, M)])) for j in range(M)]
        allws_before = [z3.And(*[ws[i] for i in range(j)]) if j else z3.BoolVal(True) for j in range(M)]
        hdr = z3.Or(*[z3.And(allws_before[j], in_cls(row[j], "H")) for j in range(M)])
        blk = z3.And(*ws)
        header.append(hdr)
        blank.append(blk)
        seqline.append(z3.And(z3.Not(hdr), z3.Not(blk)))
        bad.append(z3.Or(*[z3.And(inside[j], in_cls(row[j], "OHW")) for j in range(M)]))
        # non-space whitespace at the ends of a line is removed by strip(): the property does not speak about it
        wsend.append(z3.Or(*[z3.And(z3.Not(inside[j]), in_cls(row[j], "W")) for j in range(M)]))
    nheaders = count(header)
    any_bad = z3.Or(*[z3.And(seqline[l], bad[l]) for l in range(L)])
    # residue characters (letters and stars) in file order
    res = []
    for l in range(L):
        for c in vs[l]:
            res.append((z3.And(seqline[l], in_cls(c, "AX")), c))
    nstars = count(z3.And(g, in_cls(c, "X")) for g, c in res)
    star_last = z3.Or(*[z3.And(g, in_cls(c, "X"), z3.Not(z3.Or(*[g2 for g2, _ in res[k + 1:]])) if res[k + 1:] else z3.BoolVal(True)) for k, (g, c) in enumerate(res)])
    valid = z3.And(nheaders <= 1, z3.Not(any_bad), z3.Or(nstars == 0, z3.And(nstars == 1, star_last)))
    letters = [(z3.And(g, in_cls(c, "A")), c) for g, c in res]
    nletters = count(g for g, _ in letters)
    content_before_header = z3.Or(*[z3.And(header[l], z3.Or(*[seqline[k] for k in range(l)])) for l in range(1, L)]) if L > 1 else z3.BoolVal(False)
    unspecified = z3.Or(nletters == 0, content_before_header, *wsend)
    return valid, unspecified, letters


def nth_code(items, t):
    acc = z3.IntVal(SENT)
    for j in range(len(items) - 1, -1, -1):
        g, v = items[j]
        before = [gg for gg, _ in items[:j]]
        cnt = count(before) if before else z3.IntVal(0)
        acc = z3.If(z3.And(g, cnt == t), v, acc)
    return acc


def run_item(item):
    from localcider.sequenceParameters import SequenceParameters
    from localcider.backend.seqfileparser import SequenceFileParser
    res = new_result()
    I = interp(force_interp={"parseSeqFile", "SequenceParameters", "SequenceFileParser"})
    L, M = item["L"], item["M"]
    vs, lines = [], []
    for l in range(L):
        row, chars = [], []
        for j in range(M):
            v, fd, dom = sym_char("f%d_%d" % (l, j), ALPHA)
            I.solver.add(dom)
            row.append(v); chars.append(fd)
        vs.append(row)
        term = "\n" if (l < L - 1 or item["nl"]) else ""
        lines.append(mk_str(chars + [term]))
    flat = [v for row in vs for v in row]
    for v, cl in zip(flat, item["prefix"]):
        I.solver.add(in_cls(v, cl))
    I.stubs[open] = lambda I_, filename, *a, **k: FakeFile([">bad\n", "A?\n"]) if filename == "<rejected file>" else FakeFile(lines)
    valid, unspecified, letters = reference(vs)

    def text_of(m):
        return "".join("".join(ALPHA[m.eval(v, model_completion=True).as_long()] for v in row) + ("\n" if (l < L - 1 or item["nl"]) else "") for l, row in enumerate(vs))

    def cex(m):
        return dict(text=text_of(m))

    def thunk():
        # the parser object is reused: it rejected another file (with a header) just before
        parser = I.call(SequenceFileParser, [], {})
        try:
            I.call(parser.parseSeqFile, ["<rejected file>"], {})
        except PyRaise:
            pass
        parsed = I.call(parser.parseSeqFile, ["<symbolic file>"], {})
        return parsed, None

    def thunk_obj():
        parsed = I.call(I.call(SequenceFileParser, [], {}).parseSeqFile, ["<symbolic file>"], {})
        sp = I.call(SequenceParameters, [], {"sequenceFile": "<symbolic file>"})
        return parsed, sp

    def on_raise(ob, exc, m):
        ob.prove(z3.Or(z3.Not(valid), unspecified), "rejected => the file violates the grammar (second header, bad '*', other character)", cex)

    def on_return(ob, val, m):
        parsed, sp = val
        if not ob.prove(z3.Or(valid, unspecified), "accepted => the file follows the grammar", cex):
            return
        pch = I.chars(parsed) if isinstance(parsed, (str, SymStr)) else None
        if pch is None:
            ob.prove(False, "parse result is a string", lambda m_: cex(m))
            return
        codes = [as_int(to_sym(mk_fd([(g, AIDX.get(v, -2)) for g, v in fd_cases(c)]))) if isinstance(c, FD) else z3.IntVal(AIDX.get(c, -2)) for c in pch]
        n = len(pch)
        nexp = count(g for g, _ in letters)
        claim = z3.And(nexp == n, *[nth_code(letters, t) == codes[t] for t in range(n)])
        ob.prove(z3.Or(unspecified, claim), "parse result == the concatenated residue letters", cex)
        # the object built from the file has the state of an object built from the parsed string
        if n > 0 and sp is not None:
            sp2 = I.call(SequenceParameters, [parsed], {})
            for attr in STATE:
                t = state_eq(I, getattr(sp.SeqObj, attr, "<missing>"), getattr(sp2.SeqObj, attr, "<missing>"))
                ob.prove(z3.Or(unspecified, zbool(t)) if not isinstance(t, bool) else (t or False), "file-built object: state.%s equals that of the object built from the parsed string" % attr, cex)
        c = cex(m)
        if len(res["samples"]) < 2:
            res["samples"].append(dict(item=item["name"], witness=c, obligation="accepted <=> grammar; result == concatenated letters; object state == object from string"))
        try:
            want = native_parse(c["text"])
            if concrete(m, parsed) == want:
                res["validated"] += 1
            else:
                res["inconclusive"].append("TRANSLATOR-VALIDATION FAILED on %r: %r vs %r" % (c["text"], concrete(m, parsed), want))
        except Exception as ex:
            res["inconclusive"].append("TRANSLATOR-VALIDATION: native parse raised %s on a returning path %r" % (type(ex).__name__, c["text"]))
    explore(I, res, thunk, on_return, cex, label=item["name"] + " parse", on_raise=on_raise)
    explore(I, res, thunk_obj, on_return, cex, label=item["name"] + " object", on_raise=on_raise)
    return finish(I, res)


def reused_parser(tmpdir_file):
    """a parser object that has just rejected a file with a header"""
    from localcider.backend.seqfileparser import SequenceFileParser
    p = SequenceFileParser()
    bad = tmpdir_file + ".bad"
    open(bad, "w").write(">bad\nA?\n")
    try:
        p.parseSeqFile(bad, silent=True)
    except Exception:
        pass
    finally:
        os.unlink(bad)
    return p


def native_parse(text):
    from localcider.backend.seqfileparser import SequenceFileParser
    fd, path = tempfile.mkstemp(suffix=".seq", prefix="verif_c14_")
    try:
        os.write(fd, text.encode("ascii"))
        os.close(fd)
        return reused_parser(path).parseSeqFile(path, silent=True)
    finally:
        os.unlink(path)


def ref_parse(text):
    """(status, value): ('ok', seq) | ('reject', why) | ('unspecified', why)"""
    header_seen = False
    content = False
    hdr_after_content = False
    nheaders = 0
    res = ""
    bad = False
    for line in text.split("\n"):
        if line != line.strip() and line.strip(" ") != line.strip():
            return "unspecified", "non-space whitespace at the end of a line"
        st = line.strip(" ")
        if st == "":
            continue
        if st[0] == ">":
            nheaders += 1
            if content:
                hdr_after_content = True
            continue
        content = True
        for ch in st:
            k = cls_of(ch)
            if k in "AX":
                res += ch
            elif k in "SD":
                pass
            else:
                bad = True
    letters = res.replace("*", "")
    if letters == "" or hdr_after_content:
        return "unspecified", "no residues" if letters == "" else "header after sequence content"
    if nheaders > 1 or bad:
        return "reject", "second header" if nheaders > 1 else "other character in a sequence line"
    if res.count("*") > 1 or ("*" in res and not res.endswith("*")):
        return "reject", "repeated or non-final '*'"
    return "ok", letters


def replay(cex):
    from localcider.sequenceParameters import SequenceParameters
    import numpy as np
    text = cex["text"]
    status, val = ref_parse(text)
    if status == "unspecified":
        return False, "unspecified by the property (%s)" % val
    fd, path = tempfile.mkstemp(suffix=".seq", prefix="verif_c14_")
    try:
        os.write(fd, text.encode("ascii"))
        os.close(fd)
        from localcider.backend.seqfileparser import SequenceFileParser
        try:
            got = reused_parser(path).parseSeqFile(path, silent=True)
        except Exception as ex:
            return status == "ok", "file %r rejected by the parser with %s; reference: %s %r" % (text, type(ex).__name__, status, val)
        if status == "reject":
            return True, "file %r parsed to %r; reference rejects it (%s)" % (text, got, val)
        try:
            sp = SequenceParameters(sequenceFile=path)
        except Exception as ex:
            return True, "file %r parses to %r but SequenceParameters(sequenceFile=...) raised %s" % (text, got, type(ex).__name__)
    finally:
        os.unlink(path)
    if status == "reject":
        return True, "file %r accepted as %r; reference rejects it (%s)" % (text, got, val)
    if got != val:
        return True, "file %r parsed to %r, residues are %r" % (text, got, val)
    ref = SequenceParameters(val)
    for attr in STATE:
        a, b = getattr(sp.SeqObj, attr, None), getattr(ref.SeqObj, attr, None)
        same = np.array_equal(a, b) if isinstance(a, np.ndarray) or isinstance(b, np.ndarray) else a == b
        if not same:
            return True, "file %r: state.%s = %r differs from the object built from %r (%r)" % (text, attr, a, val, b)
    return False, "ok"


def finding_key(cex):
    return "file:%r" % cex["text"]
