"""C18 — a Wang-Landau run obeys the WL update rule and its outputs are self-consistent (one-step inductive check)."""
import random, ast, os, tempfile, shutil, math
import z3
from fractions import Fraction as F
from vf.sx import *
from symx.stubs import install_rng, UFModel
from symx.interp import Frame, ReturnEx

ID = "C18"
TITLE = "Wang-Landau run obeys the WL update rule and its outputs are self-consistent"
ASSUMPTIONS = [
    "inductive step: the body of the `while f > convergence` loop of run_normal_WL (taken from its AST at run time) is executed ONCE from an arbitrary pre-state: "
    "g arbitrary reals, H arbitrary non-negative integers, f > 1 arbitrary, the walker in ANY bin of the [0,1] partition, step / iteration counters arbitrary; bin configuration enumerated",
    "the four Monte-Carlo moves return 'some sequence' whose kappa() is an arbitrary real in {-1} u [0, 1.1) (that they only rearrange residues is C17); "
    "rand.random() draws are arbitrary reals in [0,1); np.exp / np.log / x**0.5 are uninterpreted (exp > 0, exp(x) <= 1 iff x <= 0, log f > 0 and 1 < sqrt f < f for f > 1)",
    "log / DOS writers (writeLog, mklog, open) are recording stubs; number formatting of symbolic values is opaque; print is a no-op",
    "the flat-check claim assumes a positive total count in the range (with an all-zero histogram numpy's 0/0 is nan and the property's wording is degenerate)",
    "per-iteration invariant 'g increments = ln f x histogram': consequence of the step claim (every counted step adds ln f to g and 1 to H at the same bin, nothing else changes them)",
    "reference runs: real seeded runs of run_normal_WL (real moves; the run's RNG draws and proposals recorded from the harness side; per-iteration g/H/f/bin records from the guarded hook in "
    "run_normal_WL) are checked step by step against the same update rule, capped at 4000 proposals; finished runs are also compared with their returned array and output files",
]
OUTSIDE = ["whole-run convergence / termination and the statistical correctness of the sampler", "histogram-zoom mode", "bin configurations other than the enumerated ones"]
CONFIGS = {
    "quick": [(2, 0.0, 1.0), (4, 0.0, 1.0), (5, 0.2, 0.7), (2, 0.5, 1.0), (5, 0.0, 0.5)],
    "thorough": [(2, 0.0, 1.0), (4, 0.0, 1.0), (5, 0.2, 0.7), (2, 0.5, 1.0), (5, 0.0, 0.5), (10, 0.0, 1.0), (8, 0.2, 0.6), (3, 0.4, 0.7), (6, 0.0, 0.3)],
}
ITEM_TIMEOUT = {"quick": 900, "thorough": 3400}


def bounds(tier):
    return "bin configurations (nbins, binmin, binmax) in %r; one loop iteration from an arbitrary state; tail (DOS files, returned array) once; %d reference runs" % (CONFIGS[tier], 2 if tier == "quick" else 12)


def items(tier, seed):
    out = [dict(name="step_n%d_%s_%s" % c, kind="step", cfg=list(c)) for c in CONFIGS[tier]]
    out += [dict(name="tail_n%d_%s_%s" % c, kind="tail", cfg=list(c)) for c in CONFIGS[tier][:2]]
    out.append(dict(name="config_grid", kind="grid", cfg=[0, 0, 0]))
    for nb in ((2, 4) if tier == "quick" else (2, 3, 4, 5)):
        for crit in (0.5, 0.25, 0.7):
            out.append(dict(name="flatcheck_n%d_crit%s" % (nb, crit), kind="flatcheck", cfg=[nb, 0.0, 1.0], crit=crit))
    for i in range(2 if tier == "quick" else 12):
        out.append(dict(name="reference_run_%d" % i, kind="trace", seedv=i, cfg=list(CONFIGS[tier][i % 2])))
    return out


class FakeSeq:
    """a sequence object of which only kappa(), len, seq, dmax, chargePattern are used by the loop"""
    _symx_call_native = True
    _symx_symbolic = True

    def __init__(self, I, k, tag):
        self.I = I
        self.k = k
        self.tag = tag
        self.len = 7
        self.seq = "SEQ<%s>" % tag
        self.dmax = 0.5
        self.chargePattern = None
        self.moves = []

    def kappa(self):
        return self.k

    def _move(self, name, frozen=None):
        I = self.I
        kv = z3.Real("knew_%s_%d" % (name, len(self.moves)))
        I.define(z3.Or(kv == -1, z3.And(kv >= 0, kv < rv(1.1))))
        child = FakeSeq(I, Sym(kv, "real"), "%s(%s)" % (name, self.tag))
        I.list_append(self.moves, (name, child))      # undo-logged: merge attempts of the interpreter roll it back
        return child

    def full_shuffle(self, frozen=None):
        return self._move("full_shuffle")

    def swapRandChargeRes(self, frozen=None):
        return self._move("swapRandChargeRes")

    def permute_block_swap(self, frozen=None):
        return self._move("permute_block_swap")

    def permute_cluster_charges(self, frozen=None):
        return self._move("permute_cluster_charges")

    def __str__(self):
        return self.seq


def make_machine(cfg, outdir):
    import localcider.backend.wang_landau as WL
    import io, contextlib
    with contextlib.redirect_stdout(io.StringIO()):
        return WL.WangLandauMachine("EKEKEKGGSGEKEK", outdir, set(), cfg[0], cfg[1], cfg[2], 50, 0.7, math.exp(0.01), "NORMAL")


def argmin_spec(bincts, k):
    """index of the bin centre nearest to k (first one on ties, as np.argmin)"""
    n = len(bincts)
    d = [zabs(rv(float(c)) - k) for c in bincts]
    idx = z3.IntVal(n - 1)
    for i in range(n - 2, -1, -1):
        cond = z3.And(*[d[i] <= d[j] for j in range(i + 1, n)])
        idx = z3.If(cond, i, idx)
    return idx


def grid_configs():
    out = []
    for lo in range(0, 10):
        for hi in range(lo + 1, 11):
            for nb in range(1, 11):
                w = (hi - lo) / 10.0 / nb
                if abs(1.0 / w - round(1.0 / w)) < 1e-6 and abs((lo / 10.0) / w - round((lo / 10.0) / w)) < 1e-6:     # bin width divides 1 and the range is aligned with the partition
                    out.append((nb, lo / 10.0, hi / 10.0))
    return out


def check_config(cfg):
    """native construction of the machine for one configuration: bin geometry claims; returns list of problems"""
    tmp = tempfile.mkdtemp(prefix="verif_c18_")
    try:
        m = make_machine(cfg, tmp)
    finally:
        shutil.rmtree(tmp, ignore_errors=True)
    n = m.nbins_actual
    c = m.getBinCenters()
    probs = []
    w = (cfg[2] - cfg[1]) / float(cfg[0])
    if n != int(round(1.0 / w)):
        probs.append("partition of [0,1] has %d bins, the requested bin width %r needs %d" % (n, w, int(round(1.0 / w))))
    if any(abs(float(c[i]) - (2 * i + 1) / (2.0 * n)) > 1e-9 for i in range(n)):
        probs.append("bin centres are not the midpoints of an equal partition of [0,1]")
    if int(m.relevant_max) - int(m.relevant_min) + 1 != cfg[0]:
        probs.append("requested range covers %d bins instead of %d" % (int(m.relevant_max) - int(m.relevant_min) + 1, cfg[0]))
    if abs(int(m.relevant_min) / float(n) - cfg[1]) > 1e-9 or abs((int(m.relevant_max) + 1) / float(n) - cfg[2]) > 1e-9:
        probs.append("bins %d..%d of %d cover [%r, %r], requested range is [%r, %r]" % (m.relevant_min, m.relevant_max, n, int(m.relevant_min) / float(n), (int(m.relevant_max) + 1) / float(n), cfg[1], cfg[2]))
    return probs


def run_grid(item):
    res = new_result()
    res["paths"] = 1
    n = 0
    for cfg in grid_configs():
        res["obligations"] += 1
        n += 1
        probs = check_config(list(cfg))
        if probs:
            res["sat"] += 1
            res["candidates"].append(dict(kind="grid", cfg=list(cfg), label=probs[0]))
        else:
            res["trivial"] += 1
    res["witnesses"] += 1
    res["samples"].append(dict(item="config_grid", configurations=n, obligation="for every (nbins, binmin, binmax) on the 0.1 grid whose bin width divides 1: partition size, midpoints, range = requested range (native construction)"))
    return res


def run_flatcheck(item):
    """__run_flatcheck alone, executed symbolically on an arbitrary histogram"""
    import localcider.backend.wang_landau as WL
    os.environ.pop("LOCALCIDER_VERIF", None)
    res = new_result()
    tmp = tempfile.mkdtemp(prefix="verif_c18_")
    try:
        wlm = make_machine(item["cfg"], tmp)
    finally:
        shutil.rmtree(tmp, ignore_errors=True)
    wlm.flatcrit = float(item["crit"])
    I = interp(force_interp={"_WangLandauMachine__run_flatcheck", "fprintGVector", "getBinCenters", "getBinSize"})
    I.uf = UFModel()
    I.stubs[print] = lambda I_, *a, **k: None
    I.stubs[WL.WangLandauMachine.writeLog] = lambda I_, self, logfile, output: None
    n = wlm.nbins_actual
    H0 = [z3.Int("H%d" % i) for i in range(n)]
    g0 = [z3.Real("g%d" % i) for i in range(n)]
    f0 = z3.Real("f")
    niter0 = z3.Int("niter")
    I.solver.add(f0 > 1, niter0 >= 0, *[z3.And(h >= 0, h <= 1000) for h in H0])
    I.solver.add(z3.Sum(H0) > 0)

    def cex(m):
        return dict(kind="flatcheck", cfg=item["cfg"], crit=item["crit"], H=[m.eval(h, model_completion=True).as_long() for h in H0])

    def thunk():
        H = [Sym(h, "int") for h in H0]
        return I.call(getattr(wlm, "_WangLandauMachine__run_flatcheck"), [H, list(H), Sym(niter0, "int"), Sym(f0, "real"), "hlog", "glog", [Sym(x, "real") for x in g0]], {})

    def on_return(ob, val, m):
        H1, f1, ni1, ns1 = val
        tot = z3.Sum(H0)
        flat = z3.And(*[z3.ToReal(H0[i]) * n >= rv(wlm.flatcrit) * z3.ToReal(tot) for i in range(n)])
        f1z = zreal(f1) if is_sym(f1) else rv(float(f1))
        H1z = [as_int(to_sym(x)) if is_sym(x) else z3.IntVal(int(x)) for x in H1]
        ni = as_int(to_sym(ni1)) if is_sym(ni1) else z3.IntVal(int(ni1))
        ob.prove(z3.If(flat, z3.And(f1z == I.uf.S(f0), ni == niter0 + 1, *[h == 0 for h in H1z]), z3.And(f1z == f0, ni == niter0, *[H1z[i] == H0[i] for i in range(n)])),
                 "f -> sqrt f and histogram reset exactly when every bin holds at least flatcrit x mean, equality included (%s)" % item["name"], cex)
        ob.prove((not is_sym(ns1)) and ns1 == 0, "the step counter restarts after a check", lambda m_: cex(m))
        if not res["samples"]:
            res["samples"].append(dict(item=item["name"], witness=cex(m), obligation="flat check on an arbitrary histogram (0 <= H_i <= 1000, total > 0)"))
    explore(I, res, thunk, on_return, cex, label=item["name"])
    return finish(I, res)


def run_item(item):
    if item["kind"] == "trace":
        return run_trace(item)
    if item["kind"] == "grid":
        return run_grid(item)
    if item["kind"] == "flatcheck":
        return run_flatcheck(item)
    import localcider.backend.wang_landau as WL
    from localcider.backend.sequence import Sequence
    os.environ.pop("LOCALCIDER_VERIF", None)      # the symbolic step is encoded with the trace hook off (worker-process local)
    res = new_result()
    tmp = tempfile.mkdtemp(prefix="verif_c18_")
    try:
        wlm = make_machine(item["cfg"], tmp)
    finally:
        shutil.rmtree(tmp, ignore_errors=True)
    I = interp(force_interp={"_WangLandauMachine__run_flatcheck", "indexInsideRelevantRegion", "fprintHVector", "fprintGVector", "getBinCenters", "getBinSize"})
    I.uf = UFModel()
    rngs = install_rng(I)
    n = wlm.nbins_actual
    bincts = wlm.getBinCenters()
    # configuration claims (concrete)
    ob0 = Obl(I, res)
    ob0.prove(all(abs(float(bincts[i]) - (2 * i + 1) / (2.0 * n)) < 1e-12 for i in range(n)), "bin centres are the midpoints of an equal partition of [0,1] (%s)" % item["name"], lambda m: dict(kind="config", cfg=item["cfg"]))
    ob0.prove(int(wlm.relevant_max) - int(wlm.relevant_min) + 1 == wlm.nbins_target and 0 <= int(wlm.relevant_min) and int(wlm.relevant_max) < n,
              "the requested range covers exactly nbins bins of the partition (%s)" % item["name"], lambda m: dict(kind="config", cfg=item["cfg"]))
    rmin, rmax = int(wlm.relevant_min), int(wlm.relevant_max)
    logs = []
    I.stubs[WL.WangLandauMachine.writeLog] = lambda I_, self, logfile, output: logs.append((logfile, output))
    I.stubs[WL.WangLandauMachine.mklog] = lambda I_, self, logfile, initial="": logfile
    I.stubs[WL.running_dotdotdot] = lambda I_: None
    I.stubs[print] = lambda I_, *a, **k: None
    files = []

    class FakeOut:
        _symx_call_native = True

        def __init__(self, name):
            self.name = name
            self.writes = []
            files.append(self)

        def write(self, x):
            self.writes.append(x)

        def close(self):
            pass
    I.stubs[open] = lambda I_, name, mode="r": FakeOut(name)
    I.stubs[Sequence] = lambda I_, seq=None, dmax=-1, chargePattern=None, **kw: holder["accepted"](seq)
    tree = I.get_ast(WL.WangLandauMachine.run_normal_WL)
    loop = [s for s in tree.body if isinstance(s, ast.While)][0]
    tail = tree.body[tree.body.index(loop) + 1:]
    # symbolic pre-state
    g0 = [z3.Real("g%d" % i) for i in range(n)]
    H0 = [z3.Int("H%d" % i) for i in range(n)]
    f0 = z3.Real("f")
    kold = z3.Real("kold")
    io0 = z3.Int("idx_old")
    nstep0, niter0, seqcount0, reject0, flat0 = z3.Int("nstep"), z3.Int("niter"), z3.Int("seqcount"), z3.Int("reject"), z3.Int("flatcount")
    I.solver.add(f0 > 1, io0 >= 0, io0 < n, nstep0 >= 0, niter0 >= 0, seqcount0 >= 0, reject0 >= 0, flat0 >= 0, *[h >= 0 for h in H0])
    I.solver.add(z3.Or(kold == -1, z3.And(kold >= 0, kold < rv(1.1))))
    holder = {}

    def cex(m):
        def val(v):
            x = m.eval(v, model_completion=True)
            return x.as_long() if z3.is_int_value(x) else float(x.as_fraction())
        return dict(kind=item["kind"], cfg=item["cfg"], g=[val(x) for x in g0], H=[val(x) for x in H0], f=val(f0), idx_old=val(io0), nstep=val(nstep0))

    def frame0():
        fr = Frame(WL.WangLandauMachine.run_normal_WL, WL.WangLandauMachine.run_normal_WL.__globals__, WL.WangLandauMachine)
        oseq = FakeSeq(I, Sym(kold, "real"), "old")
        holder["oseq"] = oseq
        holder["accepted"] = lambda seq: FakeSeq(I, holder["oseq"].moves[-1][1].k if holder["oseq"].moves else Sym(kold, "real"), "accepted")
        fr.vars.update(dict(self=wlm, bincts=bincts, g=[Sym(x, "real") for x in g0], H=[Sym(x, "int") for x in H0], f=Sym(f0, "real"), seqcount=Sym(seqcount0, "int"),
                            nstep=Sym(nstep0, "int"), niter=Sym(niter0, "int"), flatcount=Sym(flat0, "int"), rand=rngs[0] if rngs else None, hlog="hlog", glog="glog",
                            seqlog="seqlog", hblog="hblog", oseq=oseq, kold=Sym(kold, "real"), idx_old=Sym(io0, "int"), startTime=0.0, reject=Sym(reject0, "int"), globalStartTime=0.0))
        return fr
    if item["kind"] == "tail":
        def thunk():
            del files[:]
            fr = frame0()
            try:
                I.exec_block(tail, fr)
            except ReturnEx as r:
                return r.v
            return None

        def on_return(ob, ret, m):
            rows = ret[1] if isinstance(ret, tuple) and isinstance(ret[0], str) and ret[0] == "__vstack__" else None
            ok = rows is not None and len(rows) == 2 and len(rows[0]) == n and len(rows[1]) == n
            ob.prove(bool(ok), "run() returns a 2 x nbins array", lambda m_: cex(m))
            if ok:
                ob.prove(all(abs(float(a) - float(b)) < 1e-12 for a, b in zip(rows[0], bincts)), "returned row 0 = bin centres", lambda m_: cex(m))
                ob.prove(z3.And(*[zbool(sym_equal(I, rows[1][i], Sym(g0[i], "real"), 0)) for i in range(n)]), "returned row 1 = the accumulated g", cex)
            names = [os.path.basename(f.name) for f in files]
            ob.prove(names == ["DOS.txt", "DOS_local.txt"], "DOS.txt and DOS_local.txt are written", lambda m_: cex(m))
            if names == ["DOS.txt", "DOS_local.txt"]:
                ob.prove(len(files[0].writes) == n + 1 and len(files[1].writes) == (rmax - rmin + 1) + 1, "DOS.txt has one line per bin, DOS_local.txt one per bin of the range (+ header)", lambda m_: cex(m))
            res["samples"].append(dict(item=item["name"], witness=cex(m), obligation="returned array and DOS files are the recorded (bin centres, g)"))
        rngs.append(None)
        explore(I, res, thunk, on_return, cex, label=item["name"])
        return finish(I, res)
    # ---- one loop iteration
    from symx.stubs import FakeRandom

    def thunk():
        del logs[:]
        fr = frame0()
        rnd = FakeRandom(I)
        fr.vars["rand"] = rnd
        holder["rnd"] = rnd
        I.exec_block(loop.body, fr)
        test = I.eval(loop.test, fr)
        return fr, test

    def on_return(ob, val, m):
        fr, test = val
        nm = item["name"]
        rnd, oseq = holder["rnd"], holder["oseq"]
        ok = len(oseq.moves) == 1 and len(rnd.vars) == 2
        if not ok:
            res["notes"].append("moves=%d draws=%d" % (len(oseq.moves), len(rnd.vars)))
        ob.prove(ok, "one move is proposed and two uniform draws are made per step (%s)" % nm, lambda m_: cex(m))
        if not ok:
            return
        knew = oseq.moves[0][1].k.z
        r2 = rnd.vars[1][1]
        idx_new = argmin_spec(bincts, knew)
        inrange = z3.And(idx_new >= rmin, idx_new <= rmax)
        gpre = lambda ix: nested_select(g0, ix)
        E, L, S = I.uf.E, I.uf.L, I.uf.S
        dg = gpre(io0) - gpre(idx_new)
        accept = z3.And(inrange, z3.Or(z3.And(E(dg) >= 1, r2 < 1), z3.And(E(dg) < 1, r2 < E(dg))))
        # post-state
        io1 = as_int(to_sym(fr.vars["idx_old"]))
        o1 = fr.vars["oseq"]
        k1 = o1.k.z if isinstance(o1, FakeSeq) and isinstance(o1.k, Sym) else None
        moved = o1 is not oseq
        ob.prove(z3.Implies(z3.Not(inrange), z3.BoolVal(not moved)), "a proposal whose kappa bin lies outside the requested range is never accepted (%s)" % nm, cex)
        ob.prove(z3.BoolVal(moved) == accept if isinstance(moved, bool) else False, "an in-range proposal is accepted exactly when the draw is below min(1, exp(g_old - g_new)) (%s)" % nm, cex)
        if moved:
            ob.prove(z3.And(io1 == idx_new, k1 == knew) if k1 is not None else False, "after acceptance the walker sits in the proposal's bin with the proposal's kappa (%s)" % nm, cex)
        else:
            ob.prove(z3.And(io1 == io0), "after rejection the walker stays where it was (%s)" % nm, cex)
        # bookkeeping before a possible flat check: reconstruct from the recorded state
        flatnow = (nstep0 + 1) % wlm.nflatchk == 0
        g1 = [zreal(x) if is_sym(x) else rv(float(x)) for x in fr.vars["g"]]
        H1 = [as_int(to_sym(x)) for x in fr.vars["H"]]
        cur = io1
        gexp = [z3.If(z3.And(inrange, cur == i), g0[i] + L(f0), g0[i]) for i in range(n)]
        Hexp = [z3.If(z3.And(inrange, cur == i), H0[i] + 1, H0[i]) for i in range(n)]
        ob.prove(z3.And(*[g1[i] == gexp[i] for i in range(n)]), "ln f is added to g at the occupied bin after every counted step and nowhere else; nothing is added for an out-of-range proposal (%s)" % nm, cex)
        tot = z3.Sum([Hexp[i] for i in range(rmin, rmax + 1)])
        nb = rmax - rmin + 1
        flat = z3.And(*[z3.ToReal(Hexp[i]) * nb >= rv(wlm.flatcrit) * z3.ToReal(tot) for i in range(rmin, rmax + 1)])
        f1 = zreal(fr.vars["f"])
        ni1 = as_int(to_sym(fr.vars["niter"]))
        ns1 = as_int(to_sym(fr.vars["nstep"]))
        reset = z3.And(flatnow, flat, tot > 0)
        ob.prove(z3.Implies(tot > 0, z3.If(z3.And(flatnow, flat), z3.And(f1 == S(f0), ni1 == niter0 + 1, *[H1[i] == 0 for i in range(n)]),
                                           z3.And(f1 == f0, ni1 == niter0, *[H1[i] == Hexp[i] for i in range(n)]))),
                 "f -> sqrt f and the histogram is reset exactly when every bin of the range holds at least flatcrit x mean at a scheduled check; otherwise H gains 1 at the occupied bin (%s)" % nm, cex)
        ob.prove(z3.If(flatnow, ns1 == 0, ns1 == nstep0 + 1), "the step counter advances by one and restarts at a scheduled check (%s)" % nm, cex)
        tz = I.truth(test)
        ob.prove((zbool(tz) if not isinstance(tz, bool) else z3.BoolVal(tz)) == (f1 > rv(wlm.convergence)), "the run continues exactly while f > convergence (%s)" % nm, cex)
        if len(res["samples"]) < 2:
            res["samples"].append(dict(item=nm, witness=cex(m), logs=len(logs), obligation="one WL step from an arbitrary state obeys the update rule"))
    def on_raise(ob, exc, m):
        # numpy evaluates 0/0 to nan at a flat check over an all-zero range (no reset); the engine's real model raises instead:
        # that degenerate case is outside the claim, anything else is a finding
        if isinstance(exc, ZeroDivisionError):
            ob.prove(z3.And((nstep0 + 1) % wlm.nflatchk == 0, z3.Sum([H0[i] for i in range(rmin, rmax + 1)]) <= 1),
                     "the only raising path of the encoded step is the 0/0 flat check over an (almost) empty range (%s)" % item["name"], cex)
            return
        res["obligations"] += 1; res["sat"] += 1
        c = cex(m); c["label"] = "step raised %s: %s" % (type(exc).__name__, str(exc)[:60]); res["candidates"].append(c)
    explore(I, res, thunk, on_return, cex, label=item["name"], on_raise=on_raise)
    res["notes"].extend(sorted(I.notes))
    return finish(I, res)


def nested_select(vals, ix):
    acc = vals[-1]
    for i in range(len(vals) - 2, -1, -1):
        acc = z3.If(ix == i, vals[i], acc)
    return acc


# ---------------------------------------------------------------------------------------------------------------
# reference runs: real run_normal_WL with recorded RNG and proposal kappas, re-simulated with the step relation
# ---------------------------------------------------------------------------------------------------------------
class _Cap(Exception):
    pass


def real_run(cfg, seedv, flatchk=50, conv=math.exp(0.26), cap=4000):
    """real run_normal_WL (real moves) with the run's own RNG and the proposals recorded; uses the per-iteration trace hook
    (LOCALCIDER_VERIF); stopped after `cap` proposals if it has not converged"""
    import localcider.backend.wang_landau as WL
    import localcider.backend.sequence as SEQ
    import random as _r, io, contextlib, numpy as np
    os.environ["LOCALCIDER_VERIF"] = "1"
    tmp = tempfile.mkdtemp(prefix="verif_c18_")
    draws = []
    props = []
    made = []

    class RecRandom(_r.Random):
        """only the run's own generator (the first one created) is recorded; the moves create their own"""
        def __init__(self, *a):
            super().__init__(*a)
            made.append(self)

        def random(self):
            v = super().random()
            if made and made[0] is self:
                draws.append(v)
            return v
    real_Random, real_time = WL.rng.Random, WL.t.time
    orig_inside = WL.WangLandauMachine.indexInsideRelevantRegion
    seq_time = SEQ.time.time
    ctr = [0]

    def fake_time():
        ctr[0] += 1
        return float(seedv * 100003 + ctr[0])

    def inside(self, idx):
        if len(props) >= cap:
            raise _Cap()
        props.append(int(idx))
        return orig_inside(self, idx)
    R = dict(draws=draws, props=props, finished=False)
    try:
        WL.rng.Random = RecRandom
        WL.t.time = lambda: float(seedv)
        SEQ.time.time = fake_time
        WL.WangLandauMachine.indexInsideRelevantRegion = inside
        with contextlib.redirect_stdout(io.StringIO()):
            m = WL.WangLandauMachine("EKEKEKGGSGEKEKDDKK", tmp, set(), cfg[0], cfg[1], cfg[2], flatchk, 0.2, conv, "NORMAL")
            R["machine"] = m
            try:
                R["out"] = np.asarray(m.run())
                R["finished"] = True
            except _Cap:
                pass
        R["trace"] = list(getattr(m, "_verif_trace", []))
        if R["finished"]:
            R["dos"] = open(os.path.join(tmp, "DOS.txt")).read().splitlines()
            R["dosl"] = open(os.path.join(tmp, "DOS_local.txt")).read().splitlines()
            R["glog"] = open(os.path.join(tmp, "glog.txt")).read().splitlines()
        R["hbins"] = open(os.path.join(tmp, "histogram_bins.txt")).read().split()
        R["seqlog"] = open(os.path.join(tmp, "seqlog.txt")).read().splitlines()
        return R
    finally:
        WL.rng.Random, WL.t.time = real_Random, real_time
        SEQ.time.time = seq_time
        WL.WangLandauMachine.indexInsideRelevantRegion = orig_inside
        shutil.rmtree(tmp, ignore_errors=True)


def check_trace(cfg, seedv):
    """every recorded iteration of a real run must satisfy the step relation; outputs must agree with the bookkeeping"""
    import numpy as np
    from localcider.backend.sequence import Sequence
    R = real_run(cfg, seedv)
    m = R["machine"]
    n = m.nbins_actual
    bincts = [(2 * i + 1) / (2.0 * n) for i in range(n)]
    problems = []
    start = Sequence(m.seq.deltaMax(returnSeqDeltaMax=True)[1])
    idx_old = int(np.argmin(np.abs(np.array(bincts) - start.kappa())))
    g = [0.0] * n
    H = [0] * n
    f = math.e
    nstep = 0
    draws, props, trace = R["draws"], R["props"], R["trace"]
    nrec = len(trace)
    if nrec == 0:
        return ["no per-iteration records (trace hook missing?)"], 0
    if len(props) < nrec or len(draws) < 2 * nrec:
        return ["%d uniform draws and %d proposals for %d recorded iterations (expected two draws and one proposal per step)" % (len(draws), len(props), nrec)], 0
    giter = []
    for s in range(nrec):
        idx_new = props[s]
        r2 = draws[2 * s + 1]
        if not (f > m.convergence):
            problems.append("step %d executed although f = %r <= convergence" % (s, f))
            break
        inr = m.relevant_min <= idx_new <= m.relevant_max
        if inr:
            if r2 < min(1.0, math.exp(g[idx_old] - g[idx_new])):
                idx_old = idx_new
            g[idx_old] += math.log(f)
            H[idx_old] += 1
        nstep += 1
        if nstep % m.nflatchk == 0:
            loc = H[m.relevant_min:m.relevant_max + 1]
            mean = sum(loc) / float(len(loc))
            if mean > 0 and all(h / mean >= m.flatcrit for h in loc):
                f = f ** 0.5
                H = [0] * n
                giter.append(list(g))
            nstep = 0
        rec = trace[s]
        if rec["idx_old"] != idx_old or any(abs(a - b) > 1e-9 for a, b in zip(rec["g"], g)) or list(rec["H"]) != H or abs(rec["f"] - f) > 1e-12 or rec["skip"] != (not inr):
            problems.append("step %d: proposal bin %d (in range: %s), draw %r: real run has walker bin %d, g %r, H %r, f %r; the update rule gives bin %d, g %r, H %r, f %r" % (
                s, idx_new, inr, r2, rec["idx_old"], [round(x, 4) for x in rec["g"]], list(rec["H"]), rec["f"], idx_old, [round(x, 4) for x in g], H, f))
            break
        if not inr and rec["idx_old"] != idx_old:
            problems.append("walker moved to an out-of-range bin")
            break
    if R["finished"] and not problems:
        if f > m.convergence:
            problems.append("run stopped although f = %r > convergence %r" % (f, m.convergence))
        if any(abs(a - b) > 1e-12 for a, b in zip(R["out"][0], bincts)):
            problems.append("returned bin centres %r are not the midpoints of the partition" % (R["out"][0].tolist(),))
        if any(abs(a - b) > 1e-9 for a, b in zip(R["out"][1], g)):
            problems.append("returned g %r differs from the step-relation bookkeeping %r" % (R["out"][1].tolist(), g))
        if len(R["dos"]) != n + 1 or any(abs(float(l.split()[0]) - round(bincts[i], 3)) > 1e-9 or abs(float(l.split()[1]) - g[i]) > 1e-5 for i, l in enumerate(R["dos"][1:])):
            problems.append("DOS.txt does not list (bin centre, g) per bin")
        nl = m.relevant_max - m.relevant_min + 1
        if len(R["dosl"]) != nl + 1 or any(abs(float(l.split()[1]) - g[m.relevant_min + i]) > 1e-5 for i, l in enumerate(R["dosl"][1:])):
            problems.append("DOS_local.txt does not list g over the requested range")
        gl = [l for l in R["glog"][1:] if l.strip()]
        if len(gl) != len(giter) or any(any(abs(float(x) - gv) > 6e-5 for x, gv in zip(l.split("\t")[1:], gi)) for l, gi in zip(gl, giter)):
            problems.append("glog.txt does not record g at the end of each iteration")
    if not problems:
        nl = m.relevant_max - m.relevant_min + 1
        hb = [float(x) for x in R["hbins"]]
        if len(hb) != n + nl or any(abs(hb[i] - bincts[i]) > 6e-5 for i in range(n)):
            problems.append("histogram_bins.txt does not list the bin centres")
        for line in R["seqlog"][1:]:
            kap, sq = line.split("\t")
            if sorted(sq) != sorted(m.seq.seq):
                problems.append("logged sequence %s is not a rearrangement of the input" % sq)
                break
            if abs(float(kap) - Sequence(sq).kappa()) > 6e-4:
                problems.append("logged kappa %s differs from the true kappa %r of %s" % (kap, Sequence(sq).kappa(), sq))
                break
    return problems, nrec


def run_trace(item):
    res = new_result()
    res["paths"] = 1
    res["obligations"] += 1
    out = check_trace(item["cfg"], item["seedv"])
    problems, nsteps = out if isinstance(out, tuple) else (out, 0)
    if problems:
        res["sat"] += 1
        res["candidates"].append(dict(kind="trace", cfg=item["cfg"], seedv=item["seedv"], label=problems[0]))
    else:
        res["trivial"] += 1
        res["validated"] += nsteps
    res["witnesses"] += 1
    res["samples"].append(dict(item=item["name"], steps=nsteps, obligation="a real seeded run re-simulated step by step with the WL update rule gives the same g, outputs and logs"))
    return res


def replay(cex):
    if cex["kind"] == "grid":
        probs = check_config(cex["cfg"])
        return bool(probs), "configuration %r: %s" % (cex["cfg"], probs[0] if probs else "ok")
    if cex["kind"] == "flatcheck":
        import io, contextlib
        tmp = tempfile.mkdtemp(prefix="verif_c18_")
        try:
            m = make_machine(cex["cfg"], tmp)
            m.flatcrit = float(cex["crit"])
            H = list(cex["H"])
            n = len(H)
            with contextlib.redirect_stdout(io.StringIO()):
                H1, f1, ni1, ns1 = getattr(m, "_WangLandauMachine__run_flatcheck")(list(H), list(H), 3, 1.5, os.path.join(tmp, "h"), os.path.join(tmp, "g"), [0.0] * n)
        finally:
            shutil.rmtree(tmp, ignore_errors=True)
        flat = all(F(h) * n >= F(cex["crit"]) * sum(H) for h in H)
        did = (list(H1) == [0] * n and abs(f1 - 1.5 ** 0.5) < 1e-12 and ni1 == 4)
        kept = (list(H1) == H and f1 == 1.5 and ni1 == 3)
        bad = (flat and not did) or ((not flat) and not kept)
        return bad, "histogram %r, flatcrit %r: every bin >= flatcrit x mean is %s, reset happened: %s" % (H, cex["crit"], flat, did)
    if cex["kind"] == "trace":
        out = check_trace(cex["cfg"], cex["seedv"])
        problems = out[0] if isinstance(out, tuple) else out
        return bool(problems), "; ".join(problems[:2]) if problems else "ok"
    # symbolic step / tail counterexamples: confirm through real seeded runs of the same configuration
    for sd in range(8):
        out = check_trace(cex["cfg"], sd)
        problems = out[0] if isinstance(out, tuple) else out
        if problems:
            return True, "configuration %r, seed %d: %s" % (cex["cfg"], sd, problems[0])
    return False, "8 real seeded runs of configuration %r agree with the update rule" % (cex["cfg"],)


def finding_key(cex):
    return "%s:%r" % (cex["kind"], cex["cfg"])


ASSUMPTIONS.append("flat-check items execute __run_flatcheck alone on an arbitrary histogram (0 <= H_i <= 1000, total > 0) for flatcrit in {0.5, 0.25, 0.7}; "
                   "the configuration grid item constructs the machine natively for every (nbins, binmin, binmax) on the 0.1 grid whose bin width divides 1 and whose range is aligned with the resulting partition")
