"""C06 — Omega and kappa_X are kappa of the recoded sequence."""
import random, ast
import z3
from vf.sx import *
from props.c05 import kappa_close, ratio_of

ID = "C06"
TITLE = "Omega and kappa_X are kappa of the recoded sequence"
TOL = 1e-9
ASSUMPTIONS = [
    "all identities are checked with the real kappa code on both sides (no abstraction of kappa); work items fix the composition of the recoded sequence",
    "symbolic groups: one membership Boolean per letter and group, presented as lists of upper-case letters; case/order/container variants are concrete spellings",
    "kappa_X(g1,g2) == kappa_X(g2,g1) is asserted for disjoint groups only (with an overlap the first group wins, so the two calls denote different partitions)",
    "Omega / kappa_X(PEDKR) are additionally evaluated on an object whose delta-max cache holds an arbitrary non-negative value (over-approximation of 'get_kappa() was called "
    "first'); counterexamples are replayed through the real history get_kappa(), get_deltaMax(), then the getter",
    "kappa values are compared unless the delta/deltaMax ratio is within 1e-9 of the clamp thresholds 1.0 / 1.1 (jump of the documented clamp)",
]
OUTSIDE = ["sequence lengths above the bound", "groups with duplicate members in symbolic form"]
NMAX = {"quick": 6, "thorough": 8}
ITEM_TIMEOUT = {"quick": 900, "thorough": 3000}
PEDKR = ["P", "E", "D", "K", "R"]
JUNK = ["B", "X", "Z", "J", "O", "U", "*", "1", " ", "", "AA", "b", "é", 5, None]


def bounds(tier):
    return "all sequences with N <= %d, split by the composition of the recoded sequence; symbolic one- and two-group partitions of the 20 letters" % NMAX[tier]


def items(tier, seed):
    out = []
    for N in range(NMAX[tier], 0, -1):
        for j in range(N + 1):
            out.append(dict(name="omega_N%d_j%d" % (N, j), kind="omega", N=N, j=j))
            out.append(dict(name="complement_N%d_j%d" % (N, j), kind="complement", N=N, j=j))
        for a in range(N + 1):
            for b in range(N + 1 - a):
                out.append(dict(name="kappa_N%d_p%d_n%d" % (N, a, b), kind="kappa", N=N, a=a, b=b))
                out.append(dict(name="swap_N%d_a%d_b%d" % (N, a, b), kind="swap", N=N, a=a, b=b))
    out.append(dict(name="reject", kind="reject", N=3))
    out.append(dict(name="omegaseq", kind="omegaseq", N=NMAX[tier]))
    return out


def num(x):
    return zreal(x) if is_sym(x) else rv(float(x))


def prove_kappa_equal(ob, x, y, label, cex, m):
    """kappa values x, y (concrete or symbolic) equal, modulo the clamp jump"""
    if not is_sym(x) and not is_sym(y):
        return ob.prove(abs(float(x) - float(y)) <= TOL, label, lambda m_: cex(m))
    zx, zy = num(x), num(y)
    rx, ry = ratio_of(zx), ratio_of(zy)
    if rx is not None and ry is not None:
        ok, cut = prove_sum_close(ob, ry, [rx], TOL / 10, label + " [ratios]", cex, want_cut=True)
        claim = kappa_close(zx, zy, rx)
        return cut.derive(claim, label, cex) if ok else ob.prove(claim, label, cex)
    return ob.prove(within(zx - zy, TOL), label, cex)


def run_item(item):
    from localcider.sequenceParameters import SequenceParameters
    from localcider.backend.localciderExceptions import SequenceException
    res = new_result()
    I = interp()
    N = item["N"]
    kind = item["kind"]
    vs, s = sym_sequence(I, N)
    SP = lambda q=s: I.call(SequenceParameters, [q], {})
    base = dict(kind=kind)

    def cex(m, extra=None):
        d = dict(base, seq=seq_of_model(m, vs))
        if extra:
            d.update(extra(m))
        return d
    if kind == "omega":
        I.solver.add(count(in_set(v, PEDKR) for v in vs) == item["j"])
        recoded = SymStr([FD([(in_set(v, PEDKR), "E"), (z3.Not(in_set(v, PEDKR)), "K")]) for v in vs])

        dcache = z3.Real("cached_dmax")
        I.solver.add(dcache >= 0)

        def cached():
            # object whose delta-max cache is in an arbitrary 'filled' state (reached in real histories by get_kappa()/get_deltaMax() first)
            o = SP()
            o.SeqObj.dmax = Sym(dcache, "real")
            return o

        def thunk():
            return (I.call(SP().get_Omega, [], {}), I.call(SP(recoded).get_kappa, [], {}), I.call(SP().get_kappa_X, [list(PEDKR)], {}),
                    I.call(cached().get_Omega, [], {}), I.call(cached().get_kappa_X, [list(PEDKR)], {}))

        def cexh(m):
            return dict(cex(m), history=["get_kappa", "get_deltaMax"])

        def on_return(ob, val, m):
            o, k, kx, o2, kx2 = val
            val = val[:3]
            prove_kappa_equal(ob, o, k, "Omega == kappa(recoded sequence) (%s)" % item["name"], cex, m)
            prove_kappa_equal(ob, o, kx, "Omega == kappa_X(PEDKR) (%s)" % item["name"], cex, m)
            prove_kappa_equal(ob, o2, k, "Omega == kappa(recoded sequence) when the object's delta-max cache is filled (%s)" % item["name"], cexh, m)
            prove_kappa_equal(ob, kx2, k, "kappa_X(PEDKR) == kappa(recoded sequence) when the object's delta-max cache is filled (%s)" % item["name"], cexh, m)
            q = seq_of_model(m, vs)
            want = [SequenceParameters(q).get_Omega(), SequenceParameters("".join("E" if c in PEDKR else "K" for c in q)).get_kappa(), SequenceParameters(q).get_kappa_X(list(PEDKR))]
            if deep_close(list(concrete(m, val)), want, 1e-9):
                res["validated"] += 1
            else:
                res["inconclusive"].append("TRANSLATOR-VALIDATION FAILED %s" % item["name"])
            if not res["samples"]:
                res["samples"].append(dict(item=item["name"], witness=q, obligation="Omega == kappa(recode) == kappa_X(PEDKR) for all sequences with %d P/E/D/K/R" % item["j"]))
        explore(I, res, thunk, on_return, cex, label=item["name"])
    elif kind == "kappa":
        a, b = item["a"], item["b"]
        I.solver.add(composition(vs, a, b))
        variants = [(["E", "D"], ["K", "R"]), (["D", "E"], ["R", "K"]), (["e", "d"], ["k", "r"]), ("ED", "KR"), (("d", "E"), ("R", "k")), (["E", "D", "E"], ["K", "R", "K"])]

        def thunk():
            return [I.call(SP().get_kappa, [], {})] + [I.call(SP().get_kappa_X, [g1, g2], {}) for g1, g2 in variants]

        def on_return(ob, val, m):
            for (g1, g2), kx in zip(variants, val[1:]):
                prove_kappa_equal(ob, val[0], kx, "kappa == kappa_X(%r,%r) (%s)" % (g1, g2, item["name"]), lambda mm: cex(mm, lambda _: dict(g1=list(g1), g2=list(g2))), m)
            q = seq_of_model(m, vs)
            want = [SequenceParameters(q).get_kappa()] + [SequenceParameters(q).get_kappa_X(g1, g2) for g1, g2 in variants]
            if deep_close(list(concrete(m, val)), want, 1e-9):
                res["validated"] += 1
            else:
                res["inconclusive"].append("TRANSLATOR-VALIDATION FAILED %s" % item["name"])
            if not res["samples"]:
                res["samples"].append(dict(item=item["name"], witness=q, obligation="kappa == kappa_X(ED,KR) in %d spellings" % len(variants)))
        explore(I, res, thunk, on_return, cex, label=item["name"])
    elif kind in ("swap", "complement"):
        ng = 2 if kind == "swap" else 1
        mem = [[z3.Bool("g%d_%s" % (k, a)) for a in AA] for k in range(ng)]
        member = lambda k, v: z3.Or(*[z3.And(mem[k][j], v == j) for j in range(20)])
        groups = [GList([(mem[k][j], AA[j]) for j in range(20)]) for k in range(ng)]

        def gx(m):
            return dict(groups=[[AA[j] for j in range(20) if z3.is_true(m.eval(mem[k][j], model_completion=True))] for k in range(ng)])
        if kind == "swap":
            for j in range(20):
                I.solver.add(z3.Not(z3.And(mem[0][j], mem[1][j])))
            I.solver.add(z3.Or(*mem[0]), z3.Or(*mem[1]))
            I.solver.add(count(member(0, v) for v in vs) == item["a"], count(member(1, v) for v in vs) == item["b"])

            def thunk():
                return (I.call(SP().get_kappa_X, [groups[0], groups[1]], {}), I.call(SP().get_kappa_X, [groups[1], groups[0]], {}))
            lab = "kappa_X(g1,g2) == kappa_X(g2,g1) for disjoint symbolic groups (%s)" % item["name"]

            def native(q, g):
                return [SequenceParameters(q).get_kappa_X(g[0], g[1]), SequenceParameters(q).get_kappa_X(g[1], g[0])]
        else:
            I.solver.add(z3.Or(*mem[0]), z3.Not(z3.And(*mem[0])))
            I.solver.add(count(member(0, v) for v in vs) == item["j"])
            comp = GList([(z3.Not(mem[0][j]), AA[j]) for j in range(20)])

            def thunk():
                return (I.call(SP().get_kappa_X, [groups[0]], {}), I.call(SP().get_kappa_X, [comp], {}))
            lab = "kappa_X(g) == kappa_X(complement of g) for a symbolic group (%s)" % item["name"]

            def native(q, g):
                return [SequenceParameters(q).get_kappa_X(g[0]), SequenceParameters(q).get_kappa_X([a for a in AA if a not in g[0]])]

        def on_return(ob, val, m):
            prove_kappa_equal(ob, val[0], val[1], lab, lambda mm: cex(mm, gx), m)
            q = seq_of_model(m, vs)
            g = gx(m)["groups"]
            if deep_close(list(concrete(m, val)), native(q, g), 1e-9):
                res["validated"] += 1
            else:
                res["inconclusive"].append("TRANSLATOR-VALIDATION FAILED %s: %r %r" % (item["name"], q, g))
            if not res["samples"]:
                res["samples"].append(dict(item=item["name"], witness=dict(seq=q, groups=g), obligation=lab))
        explore(I, res, thunk, on_return, lambda mm: cex(mm, gx), label=item["name"])
    elif kind == "reject":
        dom = list(AA) + [a.lower() for a in AA] + JUNK
        xv = z3.Int("member")
        I.solver.add(xv >= 0, xv < len(dom))
        x = FD([(xv == i, d) for i, d in enumerate(dom)])
        valid = z3.Or(*[xv == i for i, d in enumerate(dom) if isinstance(d, str) and d.upper() in AA and len(d) == 1])
        for where in ("grp1", "grp2"):
            def thunk(where=where):
                if where == "grp1":
                    return I.call(SP().get_kappa_X, [["E", x], ["K"]], {})
                return I.call(SP().get_kappa_X, [["E"], [x, "K"]], {})

            def cx(m, where=where):
                return dict(kind=kind, seq=seq_of_model(m, vs), member=repr(dom[m.eval(xv, model_completion=True).as_long()]), member_index=m.eval(xv, model_completion=True).as_long(), where=where)

            def on_raise(ob, exc, m, where=where):
                ob.prove(z3.Not(valid), "kappa_X raises only for a non-amino-acid member (%s)" % where, cx)
                if not isinstance(exc, SequenceException):
                    res["notes"].append("group member rejected with %s instead of SequenceException" % type(exc).__name__)

            def on_return(ob, val, m, where=where):
                ob.prove(valid, "a group containing a non-amino-acid is rejected (%s)" % where, cx)
                if len(res["samples"]) < 2:
                    res["samples"].append(dict(item=item["name"], witness=cx(m), obligation="accepted => member is one of the 20 letters (any case)"))
            explore(I, res, thunk, on_return, cx, label="reject " + where, on_raise=on_raise)
    elif kind == "omegaseq":
        def thunk():
            return I.call(SP().get_Omega_sequence, [], {})

        def on_return(ob, val, m):
            ch = I.chars(val) if isinstance(val, (SymStr, str)) else None
            ob.prove(ch is not None and len(ch) == N, "Omega sequence has the input's length", lambda m_: cex(m))
            if ch is None or len(ch) != N:
                return
            for i in range(N):
                want = FD([(in_set(vs[i], PEDKR), "X"), (z3.Not(in_set(vs[i], PEDKR)), "O")])
                ob.prove(zbool(I.truth(I.binop(ast.Eq(), ch[i], want))), "Omega sequence position %d is X iff P/E/D/K/R" % (i + 1), cex)
            validate(I, res, val, lambda q: SequenceParameters(q).get_Omega_sequence(), vs, [seq_of_model(m, vs)], label="get_Omega_sequence")
            res["samples"].append(dict(item=item["name"], witness=seq_of_model(m, vs), obligation="Omega_sequence[i]=='X' <=> s[i] in PEDKR, all 20^%d sequences" % N))
        explore(I, res, thunk, on_return, cex, label=item["name"])
    return finish(I, res)


def replay(cex):
    from localcider.sequenceParameters import SequenceParameters
    kind, seq = cex["kind"], cex["seq"]

    def sp(q=seq):
        o = SequenceParameters(q)
        if q == seq:
            for h in cex.get("history", []):
                getattr(o, h)()
        return o

    def differ(x, y):
        if abs(x - y) <= TOL:
            return False
        # clamp jump at ratio 1.1
        return not (abs(x - y) < 0.11 and abs(max(x, y) - 1.1) < 1e-6 and abs(min(x, y) - 1.0) < 1e-6)
    try:
        if kind == "omega":
            o = sp().get_Omega()
            k = sp("".join("E" if c in PEDKR else "K" for c in seq)).get_kappa()
            kx = sp().get_kappa_X(list(PEDKR))
            return differ(o, k) or differ(o, kx), "seq=%s Omega=%r kappa(recoded)=%r kappa_X(PEDKR)=%r" % (seq, o, k, kx)
        if kind == "kappa":
            g1, g2 = cex["g1"], cex["g2"]
            k = sp().get_kappa(); kx = sp().get_kappa_X(g1, g2)
            return differ(k, kx), "seq=%s kappa=%r kappa_X(%r,%r)=%r" % (seq, k, g1, g2, kx)
        if kind == "swap":
            g = cex["groups"]
            x = sp().get_kappa_X(g[0], g[1]); y = sp().get_kappa_X(g[1], g[0])
            return differ(x, y), "seq=%s kappa_X(%r,%r)=%r swapped=%r" % (seq, g[0], g[1], x, y)
        if kind == "complement":
            g = cex["groups"][0]
            c = [a for a in AA if a not in g]
            x = sp().get_kappa_X(g); y = sp().get_kappa_X(c)
            return differ(x, y), "seq=%s kappa_X(%r)=%r complement=%r" % (seq, g, x, y)
        if kind == "omegaseq":
            o = sp().get_Omega_sequence()
            want = "".join("X" if c in PEDKR else "O" for c in seq)
            return o != want, "seq=%s Omega_sequence=%r expected %r" % (seq, o, want)
    except Exception as ex:
        return True, "%s on %s raised %s: %s" % (kind, seq, type(ex).__name__, ex)
    if kind == "reject":
        dom = list(AA) + [a.lower() for a in AA] + JUNK
        x = dom[cex["member_index"]]
        valid = isinstance(x, str) and len(x) == 1 and x.upper() in AA
        try:
            if cex["where"] == "grp1":
                sp().get_kappa_X(["E", x], ["K"])
            else:
                sp().get_kappa_X(["E"], [x, "K"])
            accepted = True
        except Exception:
            accepted = False
        return accepted != valid, "group member %r in %s: accepted=%s, is an amino acid=%s" % (x, cex["where"], accepted, valid)
    return False, "?"


def finding_key(cex):
    return "%s:%s" % (cex["kind"], cex["seq"])
