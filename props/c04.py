"""C04 — composition parameters equal their published per-residue definitions."""
import random
import z3
from fractions import Fraction as F
from vf.sx import *

ID = "C04"
TITLE = "Composition parameters equal their published per-residue definitions"
TOL = 1e-9
ASSUMPTIONS = [
    "floats: per-residue table values and per-residue quotients are the real doubles (FD, computed by the real code); the sum over residues is "
    "modelled in exact rational arithmetic of those doubles; reference tables are exact decimals; tolerance 1e-9 (absolute)",
    "permutation invariance is obtained from equality with the (symmetric) per-residue sum, not checked separately",
]
OUTSIDE = ["sequence lengths above the bound"]
NMAX = {"quick": 8, "thorough": 12}
ITEM_TIMEOUT = {"quick": 300, "thorough": 1200}


def bounds(tier):
    return "all sequences over the 20 letters, 1 <= N <= %d; every getter of the property; one query per getter, length and path" % NMAX[tier]


def table_terms(vs, tab, scale):
    """per-residue ite-chains: table[res_i] * scale"""
    terms = []
    for v in vs:
        acc = None
        for a in reversed(AA):
            val = z3.RealVal(F(tab[a]) * scale)
            acc = val if acc is None else z3.If(v == IDX[a], val, acc)
        terms.append(acc)
    return terms


def ind_terms(vs, letters, scale):
    return [z3.If(in_set(v, letters), z3.RealVal(scale), z3.RealVal(0)) for v in vs]


GETTERS = {
    # name: (call args, kind, spec builder)   -- per-residue table sums: one query per length over all 20^N sequences
    "get_mean_hydropathy": ((), "sum", lambda vs, N: table_terms(vs, T.KD_SHIFTED_EXACT, F(1, N))),
    "get_uversky_hydropathy": ((), "sum", lambda vs, N: table_terms(vs, T.KD_UVERSKY_EXACT, F(1, N))),
    "get_WW_hydropathy": ((), "sum", lambda vs, N: table_terms(vs, T.WW_EXACT, F(1, N))),
    "get_PPII_propensity:hilser": (("hilser",), "sum", lambda vs, N: table_terms(vs, T.PPII_EXACT["hilser"], F(1, N))),
    "get_PPII_propensity:creamer": (("creamer",), "sum", lambda vs, N: table_terms(vs, T.PPII_EXACT["creamer"], F(1, N))),
    "get_PPII_propensity:kallenbach": (("kallenbach",), "sum", lambda vs, N: table_terms(vs, T.PPII_EXACT["kallenbach"], F(1, N))),
    "get_PPII_propensity:default": ((), "sum", lambda vs, N: table_terms(vs, T.PPII_EXACT["hilser"], F(1, N))),
    "get_molecular_weight": ((), "mw", lambda vs, N: table_terms(vs, T.MW_EXACT, F(1))),
    "get_amino_acid_fractions": ((), "dict", None),
}
# count-type getters: work items fix the counts of the relevant residue classes (oracle's classes); the union of the items
# covers all sequences of the length
COMP_GETTERS = ["get_countPos", "get_countNeg", "get_countNeut", "get_fraction_positive", "get_fraction_negative", "get_FCR",
                "get_NCPR", "get_mean_net_charge"]
CLASS_GETTERS = {"get_fraction_expanding": T.EXPANDING, "get_fraction_disorder_promoting": T.DISORDER_PROMOTING}
NMAX_DICT = {"quick": 6, "thorough": 10}


def items(tier, seed):
    out = []
    for N in range(NMAX[tier], 0, -1):
        for g in GETTERS:
            if g == "get_amino_acid_fractions" and N > NMAX_DICT[tier]:
                continue
            out.append(dict(name="N%d_%s" % (N, g), N=N, getter=g))
        for a in range(N + 1):
            for b in range(N + 1 - a):
                out.append(dict(name="N%d_comp_p%d_n%d" % (N, a, b), N=N, getter="comp", npos=a, nneg=b))
        for g in CLASS_GETTERS:
            for j in range(N + 1):
                out.append(dict(name="N%d_%s_k%d" % (N, g, j), N=N, getter=g, k=j))
    return out


def native_getter(g, seq):
    from localcider.sequenceParameters import SequenceParameters
    sp = SequenceParameters(seq)
    if g == "comp":
        return [getattr(sp, n)() for n in COMP_GETTERS]
    args = GETTERS[g][0] if g in GETTERS else ()
    return getattr(sp, g.split(":")[0])(*args)


def run_item(item):
    from localcider.sequenceParameters import SequenceParameters
    N, g = item["N"], item["getter"]
    if g == "comp" or g in CLASS_GETTERS:
        return run_count_item(item)
    args, kind, mkspec = GETTERS[g]
    res = new_result()
    I = interp()
    vs, s = sym_sequence(I, N)
    rng = seeded_rng(N * 131 + len(g))

    def thunk():
        sp = I.call(SequenceParameters, [s], {})
        return I.call(getattr(sp, g.split(":")[0]), list(args), {})

    def cex(m):
        return dict(seq=seq_of_model(m, vs), getter=g)

    def on_return(ob, val, m):
        lab = "%s == per-residue definition (N=%d)" % (g, N)
        if kind == "sum":
            prove_sum_close(ob, zreal(val), mkspec(vs, N), TOL, lab, cex)
        elif kind == "mw":
            prove_sum_close(ob, zreal(val), mkspec(vs, N), 1e-6, lab, cex, spec_const=F(-18 * (N - 1)))
        elif kind == "dict":
            if not isinstance(val, dict) or sorted(val.keys()) != sorted(AA):
                res["obligations"] += 1; res["sat"] += 1
                c = cex(m); c["label"] = "amino-acid fraction keys are not the 20 letters"; res["candidates"].append(c)
            else:
                tot = z3.RealVal(0)
                lemmas = []
                for a in AA:
                    x = zreal(val[a])
                    lem = within(x - z3.ToReal(count(v == IDX[a] for v in vs)) / N, TOL)
                    ob.prove(lem, "fraction of %s (N=%d)" % (a, N), cex)
                    lemmas.append(lem)
                    tot = tot + x
                for v in vs:
                    lemmas.append(count(v == IDX[a] for a in AA) == 1)
                prove_via_lemmas(ob, within(tot - 1, 21 * TOL), lemmas, "amino-acid fractions sum to 1 (N=%d)" % N, cex)
        if len(res["samples"]) < 1:
            res["samples"].append(dict(item=item["name"], witness=seq_of_model(m, vs), obligation=lab + " for all 20^%d sequences" % N))
        validate(I, res, val, lambda q: native_getter(g, q), vs, [seq_of_model(m, vs)] + sample_seqs(rng, N, 2), label=g)
    explore(I, res, thunk, on_return, cex, label="%s N=%d" % (g, N))
    return finish(I, res)


def run_count_item(item):
    """all sequences of length N with fixed class counts: every count-type getter must return the expected value"""
    from localcider.sequenceParameters import SequenceParameters
    N, g = item["N"], item["getter"]
    res = new_result()
    I = interp()
    vs, s = sym_sequence(I, N)
    rng = seeded_rng(N * 977 + len(item["name"]))
    if g == "comp":
        a, b = item["npos"], item["nneg"]
        I.solver.add(composition(vs, a, b))
        names = COMP_GETTERS
        expect = [a, b, N - a - b, F(a, N), F(b, N), F(a + b, N), F(a - b, N), abs(F(a - b, N))]
        mk = lambda: comp_samples(rng, N, a, b, 2)
    else:
        L, k = CLASS_GETTERS[g], item["k"]
        I.solver.add(count(in_set(v, L) for v in vs) == k)
        names = [g]
        expect = [F(k, N)]
        other = "".join(x for x in AA if x not in L)

        def mk():
            out = []
            for _ in range(2):
                q = [rng.choice(L) for _ in range(k)] + [rng.choice(other) for _ in range(N - k)]
                rng.shuffle(q)
                out.append("".join(q))
            return out

    def thunk():
        sp = I.call(SequenceParameters, [s], {})
        return [I.call(getattr(sp, n), [], {}) for n in names]

    def cex(m):
        return dict(seq=seq_of_model(m, vs), getter=g)

    def on_return(ob, val, m):
        for n, v, e in zip(names, val, expect):
            lab = "%s == %s for all sequences of %s" % (n, e, item["name"])
            if isinstance(e, int):
                if is_sym(v):
                    ob.prove(as_int(to_sym(v)) == e, lab, cex)
                else:
                    ob.prove(type(v) is int and v == e, lab, lambda m_: cex(m))
            else:
                if is_sym(v):
                    ob.prove(within(zreal(v) - rv(e), TOL), lab, cex)
                else:
                    ob.prove(abs(float(v) - float(e)) <= TOL, lab, lambda m_: cex(m))
        if g == "comp":
            fp, fm, fcr, ncpr = val[3], val[4], val[5], val[6]
            if not any(is_sym(x) for x in (fp, fm, fcr, ncpr)):
                ok = abs(fcr - (fp + fm)) <= TOL and abs(ncpr - (fp - fm)) <= TOL and abs(ncpr) <= fcr + TOL and 0 <= fcr <= 1 + TOL
                ob.prove(bool(ok), "FCR=f+ + f-, NCPR=f+ - f-, |NCPR|<=FCR<=1 (%s)" % item["name"], lambda m_: cex(m))
            else:
                fp, fm, fcr, ncpr = [zreal(x) for x in (fp, fm, fcr, ncpr)]
                ob.prove(z3.And(within(fcr - (fp + fm), TOL), within(ncpr - (fp - fm), TOL), zabs(ncpr) <= fcr + rv(TOL), fcr <= 1 + rv(TOL), fcr >= 0),
                         "FCR=f+ + f-, NCPR=f+ - f-, |NCPR|<=FCR<=1 (%s)" % item["name"], cex)
        if len(res["samples"]) < 1:
            res["samples"].append(dict(item=item["name"], witness=seq_of_model(m, vs), obligation="%s == %s for all members of the class" % (names, [str(e) for e in expect])))
        validate(I, res, val, lambda q: (native_getter(g, q) if g == "comp" else [native_getter(g, q)]), vs, [seq_of_model(m, vs)] + mk(), label=g)
    explore(I, res, thunk, on_return, cex, label=item["name"])
    return finish(I, res)


# ---------------------------------------------------------------- native replay against exact reference
def reference(g, seq):
    N = len(seq)
    cnt = lambda letters: sum(1 for c in seq if c in letters)
    tab = lambda t: sum(F(t[c]) for c in seq)
    if g == "get_countPos": return cnt(T.POS)
    if g == "get_countNeg": return cnt(T.NEG)
    if g == "get_countNeut": return cnt(T.NEUT)
    if g == "get_fraction_positive": return F(cnt(T.POS), N)
    if g == "get_fraction_negative": return F(cnt(T.NEG), N)
    if g == "get_FCR": return F(cnt(T.POS + T.NEG), N)
    if g == "get_NCPR": return F(cnt(T.POS) - cnt(T.NEG), N)
    if g == "get_mean_net_charge": return abs(F(cnt(T.POS) - cnt(T.NEG), N))
    if g == "get_fraction_expanding": return F(cnt(T.EXPANDING), N)
    if g == "get_fraction_disorder_promoting": return F(cnt(T.DISORDER_PROMOTING), N)
    if g == "get_mean_hydropathy": return tab(T.KD_SHIFTED_EXACT) / N
    if g == "get_uversky_hydropathy": return tab(T.KD_UVERSKY_EXACT) / N
    if g == "get_WW_hydropathy": return tab(T.WW_EXACT) / N
    if g.startswith("get_PPII_propensity"):
        mode = g.split(":")[1]
        return tab(T.PPII_EXACT["hilser" if mode == "default" else mode]) / N
    if g == "get_molecular_weight": return tab(T.MW_EXACT) - 18 * (N - 1)
    if g == "get_amino_acid_fractions": return {a: F(seq.count(a), N) for a in AA}
    raise KeyError(g)


def replay(cex):
    seq, g = cex["seq"], cex["getter"]
    try:
        got = native_getter(g, seq)
    except Exception as ex:
        return True, "%s(%s) raised %s: %s" % (g, seq, type(ex).__name__, ex)
    if g == "comp":
        bad = False
        for n, v in zip(COMP_GETTERS, got):
            w = reference(n, seq)
            bad = bad or ((v != w or type(v) is not int) if isinstance(w, int) else abs(float(v) - float(w)) > TOL)
        cp, cn, c0, fp, fm, fcr, ncpr, mnc = got
        bad = bad or abs(fcr - (fp + fm)) > TOL or abs(ncpr - (fp - fm)) > TOL or abs(ncpr) > fcr + TOL or fcr > 1 + TOL or fcr < 0 or cp + cn + c0 != len(seq)
        return bad, "seq=%s %s=%r" % (seq, COMP_GETTERS, got)
    want = reference(g, seq)
    tol = 1e-6 if g == "get_molecular_weight" else TOL
    if isinstance(want, dict):
        bad = not isinstance(got, dict) or set(got) != set(want) or any(abs(got[a] - float(want[a])) > tol for a in want) or abs(sum(got.values()) - 1) > 21 * tol
    elif isinstance(want, int):
        bad = got != want
    else:
        bad = abs(float(got) - float(want)) > tol
    return bad, "seq=%s %s=%r definition=%r" % (seq, g, got, want if isinstance(want, (int, dict)) else float(want))


def finding_key(cex):
    return "%s:%s" % (cex["getter"], cex["seq"])


def fallback(item):
    g = item["getter"]
    return [dict(seq=q, getter=g) for q in fallback_seqs(item)]
