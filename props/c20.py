"""C20 — HTML rendering shows each residue once, in order, in its palette colour; palette updates validate-then-commit."""
import random, ast, re
import z3
from vf.sx import *

ID = "C20"
TITLE = "HTML rendering shows each residue once, in order, in its palette colour"
ASSUMPTIONS = [
    "inductive step for the palette: the pre-state is an arbitrary valid palette (one symbolic colour out of the 17 names per amino acid), i.e. every state "
    "reachable by any series of accepted updates; one update or one rendering follows",
    "update dictionaries: symbolic presence per amino-acid key, symbolic values over the 17 names plus 'pink', '', 'redd', 3; one extra key 'X' may be present; "
    "mixed-case colour names are not asserted (the two docstrings disagree)",
    "rendering is checked as the SECOND rendering of an object: it was rendered before under another arbitrary valid palette (any series of accepted updates in between)",
    "the rendered string is compared piecewise with the expected markup (exact string equality); 'stripping the markup recovers the sequence' follows from it",
]
OUTSIDE = ["sequences longer than the bound; in the thorough tier positions other than the block boundaries are concrete letters", "mixed-case colour names"]
NMAX = {"quick": 12, "thorough": 20}
LONG = {"quick": [51, 101], "thorough": [50, 51, 52, 60, 100, 101, 151]}
ITEM_TIMEOUT = {"quick": 600, "thorough": 2400}
COL = T.HTML_COLOURS
BADCOL = ["pink", "", "redd", 3]


def bounds(tier):
    return ("rendering: all sequences with N <= %d x arbitrary valid palette; lengths %r with symbolic residues at positions 1,10,11,50,51,52,100,101 and concrete elsewhere; "
            "palette update: symbolic dictionaries from an arbitrary valid palette" % (NMAX[tier], LONG[tier]))


def items(tier, seed):
    out = [dict(name="render_N%d" % n, kind="render", N=n) for n in range(NMAX[tier], 0, -1)]
    out += [dict(name="render_long_N%d" % n, kind="render", N=n, sparse=True) for n in LONG[tier]]
    out.append(dict(name="update", kind="update", N=3))
    return out


def expected_html(seq, palette):
    out = '<p style="font-family:Courier;">'
    for i, r in enumerate(seq):
        if i % 10 == 0:
            out += " "
        if i % 50 == 0:
            out += "<br>"
        out += '<span style="color:%s">%s</span>' % (palette[r], r)
    return out + "</p>"


def sym_palette(I):
    pv = {a: z3.Int("pal_%s" % a) for a in AA}
    pal = {}
    for a in AA:
        I.solver.add(pv[a] >= 0, pv[a] < len(COL))
        pal[a] = FD([(pv[a] == k, COL[k]) for k in range(len(COL))])
    return pv, pal


def palette_of(m, pv):
    return {a: COL[m.eval(pv[a], model_completion=True).as_long()] for a in AA}


def run_item(item):
    from localcider.sequenceParameters import SequenceParameters
    res = new_result()
    I = interp()
    N = item["N"]
    rng = seeded_rng(N)
    pv, pal = sym_palette(I)
    if item["kind"] == "render":
        if item.get("sparse"):
            symbolic_at = {0, 9, 10, 49, 50, 51, 99, 100, 149, 150}
            vs_all, chars = [], []
            for i in range(N):
                if i in symbolic_at:
                    v, fd, dom = sym_char("c%d" % i, AA)
                    I.solver.add(dom)
                    vs_all.append(v); chars.append(fd)
                else:
                    vs_all.append(None); chars.append(rng.choice(AA))
            s = SymStr(chars)
        else:
            vs_all, s = sym_sequence(I, N)
            chars = s.uniform_chars()

        def seq_of(m):
            return "".join(AA[m.eval(v, model_completion=True).as_long()] if v is not None else c for v, c in zip(vs_all, chars))

        def cex(m):
            return dict(kind="render", seq=seq_of(m), palette=palette_of(m, pv), earlier_palette={a: COL[m.eval(pv0[a], model_completion=True).as_long()] for a in AA})

        pv0, pal0 = {}, {}
        for a in AA:
            pv0[a] = z3.Int("pal0_%s" % a)
            I.solver.add(pv0[a] >= 0, pv0[a] < len(COL))
            pal0[a] = FD([(pv0[a] == k, COL[k]) for k in range(len(COL))])

        def thunk():
            sp = I.call(SequenceParameters, [s], {})
            # history: the sequence was rendered before under another (arbitrary valid) palette; the palette then changed
            sp.SeqObj.aminoAcidColorMap = dict(pal0)
            I.call(sp.get_HTMLColorString, [], {})
            sp.SeqObj.aminoAcidColorMap = dict(pal)
            return I.call(sp.get_HTMLColorString, [], {})

        def on_return(ob, val, m):
            pieces = ['<p style="font-family:Courier;">']
            for i, ch in enumerate(chars):
                if i % 10 == 0:
                    pieces.append(" ")
                if i % 50 == 0:
                    pieces.append("<br>")
                colour = mk_fd_apply(I, lambda a: pal[a], ch) if isinstance(ch, FD) else pal[ch]
                pieces += ['<span style="color:', colour, '">', ch, "</span>"]
            pieces.append("</p>")
            want = mk_str(pieces)
            ok = isinstance(val, (str, SymStr))
            try:
                parts = I.str_eq_parts(val, want) if ok else [False]
            except Unsupported as ex:
                # the two strings could not even be aligned piece by piece: most likely they differ; the witness is replayed natively
                res["obligations"] += 1; res["sat"] += 1
                c = cex(m); c["label"] = "rendered string has a different structure than the expected markup (%s)" % ex
                res["candidates"].append(c)
                return
            for k_, eq in enumerate(parts):
                t_ = I.truth(eq)
                ob.prove(zbool(t_) if not isinstance(t_, bool) else t_, "rendered string == expected markup, piece %d of %d (space every 10, <br> every 50, palette colour per residue) (%s)" % (k_ + 1, len(parts), item["name"]), cex)
            c = cex(m)
            if len(res["samples"]) < 2:
                res["samples"].append(dict(item=item["name"], witness=dict(seq=c["seq"]), obligation="HTML string equals the expected markup for all sequences and all valid palettes"))
            sp = SequenceParameters(c["seq"])
            sp.set_HTMLColorResiduePalette(c["palette"])
            if concrete(m, val) == sp.get_HTMLColorString():
                res["validated"] += 1
            else:
                res["inconclusive"].append("TRANSLATOR-VALIDATION FAILED %s" % item["name"])
        explore(I, res, thunk, on_return, cex, label=item["name"])
        return finish(I, res)
    # ---- palette update: inductive step from an arbitrary valid palette
    vs, s = sym_sequence(I, N)
    dom = COL + BADCOL
    keys = list(AA) + ["X"]
    pres = {a: z3.Bool("has_%s" % a) for a in keys}
    uv = {a: z3.Int("upd_%s" % a) for a in keys}
    entries = {}
    for a in keys:
        I.solver.add(uv[a] >= 0, uv[a] < len(dom))
        entries[a] = (pres[a], FD([(uv[a] == k, dom[k]) for k in range(len(dom))]))
    ud = SymDict(entries)
    acceptable = z3.And(*[z3.And(pres[a], uv[a] < len(COL)) for a in AA])

    def upd_of(m):
        return {a: dom[m.eval(uv[a], model_completion=True).as_long()] for a in keys if z3.is_true(m.eval(pres[a], model_completion=True))}

    def cex(m):
        return dict(kind="update", seq=seq_of_model(m, vs), palette=palette_of(m, pv), update={k: (v if isinstance(v, str) else repr(v)) for k, v in upd_of(m).items()},
                    update_raw_index={a: m.eval(uv[a], model_completion=True).as_long() for a in keys if z3.is_true(m.eval(pres[a], model_completion=True))})
    holder = {}

    def thunk():
        sp = I.call(SequenceParameters, [s], {})
        sp.SeqObj.aminoAcidColorMap = dict(pal)
        holder["sp"] = sp
        I.snapshot_hook = lambda: dict(sp.SeqObj.aminoAcidColorMap) if isinstance(sp.SeqObj.aminoAcidColorMap, dict) else sp.SeqObj.aminoAcidColorMap
        I.call(sp.set_HTMLColorResiduePalette, [ud], {})
        return sp

    def same_palette(I_, cur, ref):
        if not isinstance(cur, dict) or sorted(cur.keys()) != sorted(AA):
            return False
        r = True
        for a in AA:
            r = I_.and_(r, I_.binop(ast.Eq(), cur[a], ref[a]))
        return I_.truth(r)

    def on_raise(ob, exc, m):
        ob.prove(z3.Not(acceptable), "rejected => the dictionary is not a total mapping onto the 17 colour names", cex)
        if "sp" not in holder:
            res["obligations"] += 1; res["sat"] += 1
            c = cex(m); c["label"] = "construction raised %s" % type(exc).__name__; res["candidates"].append(c)
            return
        t = same_palette(I, getattr(exc, "_symx_snapshot", None) if hasattr(exc, "_symx_snapshot") else holder["sp"].SeqObj.aminoAcidColorMap, pal)
        ob.prove(zbool(t) if not isinstance(t, bool) else t, "a rejected dictionary leaves the palette unchanged", cex)

    def on_return(ob, sp, m):
        ob.prove(acceptable, "accepted => every amino acid is given one of the 17 colour names", cex)
        t = same_palette(I, sp.SeqObj.aminoAcidColorMap, {a: I.prune(entries[a][1]) for a in AA})
        ob.prove(zbool(t) if not isinstance(t, bool) else t, "after an accepted update the palette is the dictionary", cex)
        if len(res["samples"]) < 2:
            res["samples"].append(dict(item=item["name"], witness=cex(m), obligation="accept <=> total & valid; reject leaves palette unchanged"))
    explore(I, res, thunk, on_return, cex, label=item["name"], on_raise=on_raise)
    return finish(I, res)


def replay(cex):
    from localcider.sequenceParameters import SequenceParameters
    sp = SequenceParameters(cex["seq"])
    if cex["kind"] == "render" and cex.get("earlier_palette"):
        sp.set_HTMLColorResiduePalette(dict(cex["earlier_palette"]))
        sp.get_HTMLColorString()
        sp.set_HTMLColorResiduePalette(dict(cex["palette"]))
    else:
        sp.SeqObj.aminoAcidColorMap = dict(cex["palette"])
    if cex["kind"] == "render":
        try:
            got = sp.get_HTMLColorString()
        except Exception as ex:
            return True, "get_HTMLColorString raised %s" % type(ex).__name__
        want = expected_html(cex["seq"], cex["palette"])
        stripped = re.sub(r"<[^>]*>", "", got).replace(" ", "")
        return got != want or stripped != cex["seq"], "seq=%s rendered %r expected %r" % (cex["seq"], got[:200], want[:200])
    dom = COL + BADCOL
    upd = {k: dom[i] for k, i in cex["update_raw_index"].items()}
    ok = all(a in upd and isinstance(upd[a], str) and upd[a] in COL for a in AA)
    before = dict(sp.SeqObj.aminoAcidColorMap)
    try:
        sp.set_HTMLColorResiduePalette(upd)
    except Exception as ex:
        after = sp.SeqObj.aminoAcidColorMap
        return ok or after != before, "update %r rejected with %s (acceptable=%s), palette changed=%s" % (upd, type(ex).__name__, ok, after != before)
    after = sp.SeqObj.aminoAcidColorMap
    return (not ok) or after != {a: upd[a] for a in AA}, "update %r accepted (acceptable=%s); palette now %r" % (upd, ok, after)


def finding_key(cex):
    return "%s:%s" % (cex["kind"], cex["seq"])
