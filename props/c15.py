"""C15 — read-only queries are history-independent and never change the object."""
import random, ast, json, os, sys, subprocess
import z3
from vf.sx import *

ID = "C15"
TITLE = "Read-only queries are history-independent and never change the object"
TOL = 1e-9
ASSUMPTIONS = [
    "histories are covered by three symbolic runs per work item over the same symbolic sequence (composition fixed so that delta-max is entailed): (R) every query on its own fresh object in a "
    "fresh process; (X) after a native prelude on other live objects (same charge counts at other lengths, other spellings, unrelated sequences), every query again on a fresh object; "
    "(F)/(B) all queries one after another on ONE object, in forward and in reverse order -- every ordered pair (earlier query, later query) occurs in one of the two chains. "
    "The claim is value(X/F/B) == value(R) for every query, and stored sequence / phosphosite list unchanged after each chain",
    "a native pass at each item's witness additionally checks that a value returned by a query is not changed by later queries (aliasing of returned containers)",
    "queries with heavy path structure are excluded from the symbolic chains and covered elsewhere: get_isoelectric_point and pH-dependent getters (C09), plotting (C19)",
    "a symbolic difference is replayed natively in a clean subprocess through the real call history before it is reported",
]
OUTSIDE = ["sequences longer than the bound", "histories longer than the two fixed chains (each ordered pair of queries is covered, arbitrary repetition patterns are not)",
           "objects with phosphosites set (thorough tier includes one site)"]
NS = {"quick": [2, 6], "thorough": [1, 2, 3, 5, 6]}
ITEM_TIMEOUT = {"quick": 1500, "thorough": 3400}

QUERIES = [
    ("get_sequence", (), {}), ("get_length", (), {}), ("__len__", (), {}), ("__str__", (), {}),
    ("get_mean_hydropathy", (), {}), ("get_uversky_hydropathy", (), {}), ("get_WW_hydropathy", (), {}), ("get_fraction_disorder_promoting", (), {}),
    ("get_amino_acid_fractions", (), {}), ("get_SCD", (), {}), ("get_kappa", (), {}), ("get_Omega", (), {}), ("get_Omega_sequence", (), {}),
    ("get_kappa_X", (["E", "D"], ["K", "R"]), {}), ("get_kappa_X", (["P", "E", "D", "K", "R"],), {}),
    ("get_deltaMax", (), {}), ("get_deltaMax", (True,), {}), ("get_delta", (), {}),
    ("get_countPos", (), {}), ("get_countNeg", (), {}), ("get_countNeut", (), {}), ("get_fraction_positive", (), {}), ("get_fraction_negative", (), {}),
    ("get_FCR", (), {}), ("get_fraction_expanding", (), {}), ("get_NCPR", (), {}), ("get_mean_net_charge", (), {}), ("get_molecular_weight", (), {}),
    ("get_phasePlotRegion", (), {}), ("get_phosphosites", (), {}), ("get_kappa_after_phosphorylation", (), {}), ("get_all_phosphorylatable_sites", (), {}),
    ("get_full_phosphostatus_kappa_distribution", (), {}), ("get_phosphosequence", (), {}), ("get_PPII_propensity", (), {}), ("get_PPII_propensity", ("kallenbach",), {}),
    ("get_linear_sigma", (2,), {}), ("get_linear_NCPR", (2,), {}), ("get_linear_FCR", (2,), {}), ("get_linear_hydropathy", (2,), {}),
    ("get_linear_sequence_composition", (2,), {}), ("get_linear_sequence_composition", (1, [["A", "K"], ["E"]]), {}),
    ("get_reduced_alphabet_sequence", (8,), {}), ("get_reduced_alphabet_sequence", (), {}),
    ("get_linear_complexity", (), {"blobLen": 2}), ("get_linear_complexity", (), {"complexityType": "LC", "blobLen": 2, "wordSize": 1}),
    ("get_linear_complexity", (), {"complexityType": "LZW", "blobLen": 2, "alphabetSize": 4}),
    ("get_HTMLColorString", (), {}),
]


def qname(q):
    n, a, k = q
    return "%s(%s)" % (n, ", ".join([repr(x) for x in a] + ["%s=%r" % kv for kv in sorted(k.items())]))


def bounds(tier):
    return "every composition with N in %r; %d read-only queries; fresh / cross-object / forward-chain / reverse-chain histories" % (NS[tier], len(QUERIES))


def items(tier, seed):
    out = []
    for N in NS[tier]:
        for a in range(N + 1):
            for b in range(N + 1 - a):
                if tier == "quick" and N >= 5 and b > a:
                    continue          # quick tier: one of each mirror pair of compositions
                out.append(dict(name="N%d_p%d_n%d" % (N, a, b), N=N, npos=a, nneg=b, site=False))
        if N >= 5:
            # objects with phosphosites registered in non-ascending order
            out.append(dict(name="N%d_sites" % N, N=N, npos=1, nneg=1, site=[N - 1, 2]))
        elif tier == "thorough" and N >= 2:
            out.append(dict(name="N%d_site" % N, N=N, npos=1, nneg=0, site=[N]))
    out.sort(key=lambda i: -i["N"])
    return out


def reset_shared_defaults():
    import localcider.sequenceParameters as SPM
    import localcider.backend.sequence as SEQ
    SPM.SequenceParameters.get_linear_sequence_composition.__defaults__[1][:] = []
    SEQ.Sequence.linearCompositions.__defaults__[0][:] = []


def call_query(I, sp, q):
    n, a, k = q
    import copy
    return I.call(getattr(sp, n), [copy.deepcopy(x) for x in a], dict(k))


def run_item(item):
    from localcider.sequenceParameters import SequenceParameters
    res = new_result()
    I = interp()
    N, a, b = item["N"], item["npos"], item["nneg"]
    vs, s = sym_sequence(I, N)
    I.solver.add(composition(vs, a, b))
    sites = item.get("site") or []
    for p_ in sites:
        I.solver.add(in_set(vs[p_ - 1], T.STY))
    usable = [q for q in QUERIES if not (q[0].startswith("get_linear") and q[1] and isinstance(q[1][0], int) and q[1][0] > N) and not (q[2].get("blobLen", 0) > N)]
    prelude = std_prelude(N, a, b)
    state = {}

    def fresh():
        sp = I.call(SequenceParameters, [s], {})
        if sites:
            I.call(sp.set_phosphosites, [list(sites)], {})
        return sp

    def cex_for(mode, qi):
        def f(m):
            return dict(seq=seq_of_model(m, vs), mode=mode, query=qi, site=list(sites), prelude=prelude)
        return f

    def thunk():
        reset_shared_defaults()
        # (R) reference: every query on its own fresh object, clean module state
        R = [call_query(I, fresh(), q) for q in usable]
        # (X) other live objects have been analysed in between
        run_prelude(prelude)
        X = [call_query(I, fresh(), q) for q in usable]
        # (F)/(B) one object, all queries in forward / reverse order
        of = fresh()
        F_ = [call_query(I, of, q) for q in usable]
        ob_ = fresh()
        B_ = list(reversed([call_query(I, ob_, q) for q in reversed(usable)]))
        return R, X, F_, B_, of, ob_

    def on_return(ob, val, m):
        R, X, F_, B_, of, ob_ = val
        for mode, V in (("cross", X), ("forward", F_), ("reverse", B_)):
            for qi, q in enumerate(usable):
                e = sym_equal(I, V[qi], R[qi], TOL)
                lab = "%s: %s returns the fresh-object value (%s)" % (mode, qname(q), item["name"])
                if e is None:
                    res["inconclusive"].append("ENCODING-GAP: cannot compare results of %s" % qname(q))
                    continue
                ob.prove(zbool(e) if not isinstance(e, bool) else e, lab, cex_for(mode, QUERIES.index(q)))
        for mode, o in (("forward", of), ("reverse", ob_)):
            e1 = sym_equal(I, o.SeqObj.seq, s)
            want_sites = [p_ - 1 for p_ in sites]
            e2 = sym_equal(I, list(o.SeqObj.phosphosites), want_sites)
            ob.prove(z3.And(zbool(e1), zbool(e2)) if not (isinstance(e1, bool) and isinstance(e2, bool)) else (e1 and e2),
                     "%s chain leaves the stored sequence and phosphosite list unchanged (%s)" % (mode, item["name"]), cex_for(mode, -1))
        if not res["samples"]:
            res["samples"].append(dict(item=item["name"], witness=seq_of_model(m, vs), queries=len(usable), obligation="value after history == value on a fresh object, for %d queries x 3 histories" % len(usable)))
        # translator validation: reference values at the witness == native values
        q0 = seq_of_model(m, vs)
        reset_shared_defaults()
        for qi, q in enumerate(usable):
            if q[0] in ("__str__",):
                continue
            try:
                sp = SequenceParameters(q0)
                if sites:
                    sp.set_phosphosites(list(sites))
                nat = getattr(sp, q[0])(*q[1], **q[2])
                got = concrete(m, R[qi])
                if deep_close(_plain(got), _plain(nat), 1e-9):
                    res["validated"] += 1
                else:
                    res["inconclusive"].append("TRANSLATOR-VALIDATION FAILED %s on %s: %r vs %r" % (qname(q), q0, str(got)[:80], str(nat)[:80]))
            except Exception as ex:
                res["inconclusive"].append("TRANSLATOR-VALIDATION error %s on %s: %s" % (qname(q), q0, ex))
        # returned values must not be aliased to state that later queries overwrite (native pass at the witness)
        res["obligations"] += 1
        bad = alias_problems(dict(seq=q0, site=list(sites)))
        if bad:
            res["sat"] += 1
            res["candidates"].append(dict(seq=q0, mode="alias", query=bad[0][0], site=list(sites), prelude=prelude, label=bad[0][1]))
        else:
            res["trivial"] += 1
    explore(I, res, thunk, on_return, cex_for("path", -1), label=item["name"])
    reset_shared_defaults()
    return finish(I, res)


def alias_problems(cex):
    """a value returned by a query must still be the same after other queries ran on this and on other objects"""
    from localcider.sequenceParameters import SequenceParameters
    import copy
    seq = cex["seq"]
    N = len(seq)
    usable = [q for q in QUERIES if not (q[0].startswith("get_linear") and q[1] and isinstance(q[1][0], int) and q[1][0] > N) and not (q[2].get("blobLen", 0) > N)]

    def fresh(sq=seq):
        sp = SequenceParameters(sq)
        if cex.get("site") and sq == seq:
            sp.set_phosphosites(list(cex["site"]))
        return sp
    # another live object with a different composition (and a different length)
    other = "".join(a for a in "WKDSP" if a not in seq)[:2] * 3 or "WKWKWK"
    out = []
    reset_shared_defaults()
    for qi, q in enumerate(usable):
        o = fresh()
        r = getattr(o, q[0])(*copy.deepcopy(q[1]), **q[2])
        snap = copy.deepcopy(_plain(r))
        changed = False
        for sp in (fresh(other), o, fresh()):
            for q2 in usable:
                try:
                    getattr(sp, q2[0])(*copy.deepcopy(q2[1]), **q2[2])
                except Exception:
                    pass
            if not deep_close(_plain(r), snap, TOL):
                changed = True
                break
        if changed:
            out.append((QUERIES.index(q), "the value returned by %s on %s changed after later queries: %s -> %s" % (qname(q), seq, str(snap)[:80], str(_plain(r))[:80])))
    reset_shared_defaults()
    return out


def _plain(x):
    import numpy as np
    if isinstance(x, np.ndarray):
        return x.tolist()
    if isinstance(x, tuple):
        return [_plain(i) for i in x]
    if isinstance(x, list):
        return [_plain(i) for i in x]
    if isinstance(x, dict):
        return {k: _plain(v) for k, v in x.items()}
    return x


# ---------------------------------------------------------------------------------------------------------------
# native replay in a clean subprocess (module state must be pristine for the reference values)
# ---------------------------------------------------------------------------------------------------------------
def native_history(cex):
    from localcider.sequenceParameters import SequenceParameters
    import copy
    seq, mode, qi = cex["seq"], cex["mode"], cex["query"]
    N = len(seq)
    usable = [q for q in QUERIES if not (q[0].startswith("get_linear") and q[1] and isinstance(q[1][0], int) and q[1][0] > N) and not (q[2].get("blobLen", 0) > N)]

    def fresh():
        sp = SequenceParameters(seq)
        if cex.get("site"):
            sp.set_phosphosites(list(cex["site"]))
        return sp

    def run(sp, q):
        try:
            return _plain(getattr(sp, q[0])(*copy.deepcopy(q[1]), **q[2]))
        except Exception as ex:
            return "RAISED %s: %s" % (type(ex).__name__, str(ex)[:60])
    ref = [run(fresh(), q) for q in usable]
    problems = []
    run_prelude(cex.get("prelude"))
    X = [run(fresh(), q) for q in usable]
    of = fresh()
    Fv = [run(of, q) for q in usable]
    ob_ = fresh()
    Bv = list(reversed([run(ob_, q) for q in reversed(usable)]))
    for mode_, V in (("cross", X), ("forward", Fv), ("reverse", Bv)):
        for i, q in enumerate(usable):
            if not deep_close(V[i], ref[i], TOL):
                problems.append("%s: %s returned %s, fresh object returns %s" % (mode_, qname(q), str(V[i])[:120], str(ref[i])[:120]))
    for mode_, o in (("forward", of), ("reverse", ob_)):
        if o.get_sequence() != seq or o.get_phosphosites() != list(cex.get("site") or []):
            problems.append("%s chain changed the object: sequence %r phosphosites %r" % (mode_, o.get_sequence(), o.get_phosphosites()))
    return problems


def replay(cex):
    if cex.get("mode") == "alias":
        probs = alias_problems(cex)
        return bool(probs), probs[0][1] if probs else "returned values are not aliased to mutable state"
    env = dict(os.environ)
    root = os.path.dirname(os.path.dirname(os.path.abspath(__file__)))
    env["PYTHONPATH"] = root + ":/repo"
    p = subprocess.run([sys.executable, "-c", "import sys, json; sys.setrecursionlimit(20000); import props.c15 as c; print('RESULT ' + json.dumps(c.native_history(json.loads(sys.argv[1]))))",
                        json.dumps(cex)], capture_output=True, text=True, env=env, cwd=root, timeout=1200)
    for line in p.stdout.splitlines():
        if line.startswith("RESULT "):
            probs = json.loads(line[7:])
            return bool(probs), ("seq=%s: " % cex["seq"]) + ("; ".join(probs[:3]) if probs else "all queries history-independent")
    raise RuntimeError("replay subprocess failed: " + (p.stderr or p.stdout)[-400:])


def finding_key(cex):
    q = QUERIES[cex["query"]] if cex.get("query", -1) >= 0 else None
    return "%s:%s" % (cex["mode"], qname(q) if q else "state")
