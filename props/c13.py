"""C13 — sequence strings are normalised or rejected, never silently altered."""
import random, ast
import z3
from vf.sx import *

ID = "C13"
TITLE = "Sequence strings are normalised or rejected, never silently altered"
ASSUMPTIONS = [
    "input characters range over all 128 ASCII code points plus representatives of the non-ASCII behaviour classes computed from CPython itself: "
    "every code point whose str.upper() consists only of the 20 letters (e.g. U+00DF -> 'SS', U+017F -> 'S', U+0131 -> 'I', U+FB01 -> 'FI'), "
    "all non-ASCII whitespace code points, and two inert non-ASCII characters; each case is a real str, so upper()/isspace() are the real methods",
    "'whitespace' is str.isspace(); 'rejected' means any exception",
    "'every analysis equals the analysis of the normalised word' is established as equality of the complete object state (seq, len, chargePattern, dmax, "
    "seqDeltaMax, phosphosites, colour map) with the state of an object constructed symbolically from the normalised word",
    "non-str inputs are concrete cases executed natively",
]
OUTSIDE = ["strings longer than the bound", "non-ASCII code points outside the computed behaviour classes (they behave like the inert representatives: upper() not in the 20 letters, not whitespace)"]
NMAX = {"quick": 4, "thorough": 5}
ITEM_TIMEOUT = {"quick": 900, "thorough": 3400}
class _StrLike:
    """an object that is not a str but prints as a valid sequence"""
    def __str__(self):
        return "ACD"

    def __repr__(self):
        return "<object printing as ACD>"


NONSTR = [None, 5, 3.5, b"AC", ["A", "C"], ("A",), True, {"A": 1}, False, float("nan"), float("inf"), _StrLike(), bytearray(b"ACD")]


def bounds(tier):
    return "all strings of length 0..%d over the %d-symbol alphabet (128 ASCII + non-ASCII class representatives); 13 non-str inputs" % (NMAX[tier], len(alphabet()))


_ALPHA = None


def alphabet():
    global _ALPHA
    if _ALPHA is None:
        base = [chr(i) for i in range(128)]
        special, spaces = [], []
        for cp in range(128, 0x110000):
            ch = chr(cp)
            if 0xD800 <= cp <= 0xDFFF:
                continue
            u = ch.upper()
            if all(x in AA for x in u):
                special.append(ch)
            elif ch.isspace():
                spaces.append(ch)
        _ALPHA = base + special + spaces + ["é", "中"]
    return _ALPHA


def norm_piece(ch):
    """(ok, contribution) of one input character under the property's normalisation"""
    u = ch.upper()
    ok = all((x in AA) or x.isspace() for x in u)
    return ok, "".join(x for x in u if not x.isspace())


def normalise(s):
    if not isinstance(s, str):
        return None
    w = "".join(x for x in s.upper() if not x.isspace())
    return w if (w and all(x in AA for x in w)) else None


def items(tier, seed):
    out = []
    for n in range(NMAX[tier], -1, -1):
        if n >= 3:
            # split by the behaviour class of the first characters
            # (A: contributes exactly one letter, M: contributes several letters, W: whitespace only, B: anything else)
            import itertools
            for pre in itertools.product("AMWB", repeat=2 if n == 3 else 3):
                out.append(dict(name="len%d_%s" % (n, "".join(pre)), N=n, prefix="".join(pre)))
        else:
            out.append(dict(name="len%d" % n, N=n))
    out.append(dict(name="nonstr", N=-1))
    return out


STATE = ["seq", "len", "chargePattern", "dmax", "seqDeltaMax", "phosphosites", "aminoAcidColorMap"]


def run_item(item):
    from localcider.sequenceParameters import SequenceParameters
    res = new_result()
    I = interp()
    N = item["N"]
    if N < 0:
        for x in NONSTR:
            res["obligations"] += 1
            try:
                SequenceParameters(x)
                res["sat"] += 1
                res["candidates"].append(dict(nonstr=repr(x), label="non-string accepted"))
            except Exception:
                res["trivial"] += 1
        res["samples"].append(dict(item="nonstr", inputs=[repr(x) for x in NONSTR], obligation="rejected with an exception (native run)"))
        res["paths"] = 1
        return finish(I, res)
    ALPHA = alphabet()
    vs, s = sym_sequence(I, N, ALPHA, prefix="ch") if N > 0 else ([], "")
    pieces = [norm_piece(ch) for ch in ALPHA]
    ok_i = [z3.Or(*[v == k for k, (ok, _) in enumerate(pieces) if ok]) for v in vs]
    nonempty_i = [z3.Or(*[v == k for k, (ok, c) in enumerate(pieces) if c != ""]) for v in vs]
    expected_ok = z3.And(z3.And(*ok_i) if ok_i else z3.BoolVal(True), z3.Or(*nonempty_i) if nonempty_i else z3.BoolVal(False))
    contrib = [FD([(v == k, c) for k, (ok, c) in enumerate(pieces)]) for v in vs]
    for i, cl in enumerate(item.get("prefix", "")):
        sel = {"A": lambda ok, c: ok and len(c) == 1, "M": lambda ok, c: ok and len(c) > 1, "W": lambda ok, c: ok and c == "", "B": lambda ok, c: not ok}[cl]
        I.solver.add(z3.Or(*[vs[i] == k for k, (ok, c) in enumerate(pieces) if sel(ok, c)]))

    def cex(m):
        return dict(string="".join(ALPHA[m.eval(v, model_completion=True).as_long()] for v in vs))

    def thunk():
        sp = I.call(SequenceParameters, [s], {})
        return sp, I.call(sp.get_sequence, [], {}), I.call(sp.get_length, [], {}), I.call(len, [sp], {}) if False else I.call(sp.__len__, [], {})

    def on_raise(ob, exc, m):
        ob.prove(z3.Not(expected_ok), "rejected => the normalised string is not a non-empty word over the 20 letters", cex)

    def on_return(ob, val, m):
        sp, seq, length, ln = val
        if not ob.prove(expected_ok, "accepted => normalised string is a non-empty word over the 20 letters", cex):
            return
        word = mk_str([I.prune(c) for c in contrib])
        wl = I.str_len(word)
        eq = I.str_eq(seq, word) if isinstance(seq, (str, SymStr)) else False
        ob.prove(zbool(I.truth(eq)) if not isinstance(eq, bool) else eq, "get_sequence() == normalised word", cex)
        for nm, x in (("get_length()", length), ("len()", ln)):
            t = I.truth(I.binop(ast.Eq(), x, wl))
            ob.prove(zbool(t) if not isinstance(t, bool) else t, "%s == length of the normalised word" % nm, cex)
        # complete object state == state of the object built from the normalised word
        sp2 = I.call(SequenceParameters, [word], {})
        o1, o2 = sp.SeqObj, sp2.SeqObj
        for attr in STATE:
            a1, a2 = getattr(o1, attr, "<missing>"), getattr(o2, attr, "<missing>")
            t = state_eq(I, a1, a2)
            ob.prove(zbool(t) if not isinstance(t, bool) else t, "state.%s equals that of the object built from the normalised word" % attr, cex)
        extra = set(vars(o1)) ^ set(vars(o2))
        ob.prove(not extra, "same set of attributes as the object built from the normalised word", lambda m_: cex(m))
        c = cex(m)
        if len(res["samples"]) < 3:
            res["samples"].append(dict(item=item["name"], witness=c, normalised=normalise(c["string"]), obligation="accepted => sequence/length/state equal those of the normalised word"))
        got = concrete(m, seq)
        if got == SequenceParameters(c["string"]).get_sequence():
            res["validated"] += 1
        else:
            res["inconclusive"].append("TRANSLATOR-VALIDATION FAILED on %r" % c["string"])
    explore(I, res, thunk, on_return, cex, label=item["name"], on_raise=on_raise)
    return finish(I, res)


def state_eq(I, a, b):
    import numpy as np
    if isinstance(a, np.ndarray):
        a = SymArray([pyscalar(x) for x in a])
    if isinstance(b, np.ndarray):
        b = SymArray([pyscalar(x) for x in b])
    if isinstance(a, (str, SymStr)) and isinstance(b, (str, SymStr)):
        return I.truth(I.str_eq(a, b)) if not isinstance(I.str_eq(a, b), bool) else I.str_eq(a, b)
    if isinstance(a, SymArray) and isinstance(b, SymArray):
        if len(a) != len(b):
            return False
        r = True
        for x, y in zip(a.items, b.items):
            r = I.and_(r, I.binop(ast.Eq(), x, y))
        return I.truth(r)
    if isinstance(a, (SymArray, list)) and isinstance(b, (SymArray, list)):
        a = a.items if isinstance(a, SymArray) else a
        b = b.items if isinstance(b, SymArray) else b
        if len(a) != len(b):
            return False
        r = True
        for x, y in zip(a, b):
            r = I.and_(r, I.binop(ast.Eq(), x, y))
        return I.truth(r)
    if isinstance(a, dict) and isinstance(b, dict):
        if list(a.keys()) != list(b.keys()):
            return False
        r = True
        for k in a:
            r = I.and_(r, I.binop(ast.Eq(), a[k], b[k]))
        return I.truth(r)
    if a is None or b is None:
        return a is b
    return I.truth(I.binop(ast.Eq(), a, b))


def replay(cex):
    from localcider.sequenceParameters import SequenceParameters
    import numpy as np
    if "nonstr" in cex:
        for x in NONSTR:
            if repr(x) == cex["nonstr"]:
                try:
                    SequenceParameters(x)
                    return True, "non-string %r accepted" % (x,)
                except Exception as ex:
                    return False, "rejected with %s" % type(ex).__name__
        return False, "?"
    s = cex["string"]
    want = normalise(s)
    try:
        sp = SequenceParameters(s)
    except Exception as ex:
        return want is not None, "%r rejected with %s although it normalises to %r" % (s, type(ex).__name__, want)
    if want is None:
        return True, "%r accepted (sequence %r) although it does not normalise to a word over the 20 letters" % (s, sp.get_sequence())
    ref = SequenceParameters(want)
    if sp.get_sequence() != want or sp.get_length() != len(want) or len(sp) != len(want):
        return True, "%r -> sequence %r length %r len() %r, normalised word %r" % (s, sp.get_sequence(), sp.get_length(), len(sp), want)
    for attr in STATE:
        a, b = getattr(sp.SeqObj, attr, None), getattr(ref.SeqObj, attr, None)
        same = np.array_equal(a, b) if isinstance(a, np.ndarray) or isinstance(b, np.ndarray) else a == b
        if not same:
            return True, "%r: state.%s = %r differs from object built from %r (%r)" % (s, attr, a, want, b)
    return False, "ok"


def finding_key(cex):
    return "string:%r" % cex.get("string", cex.get("nonstr"))
