"""C07 — get_SCD() equals the Sawle-Ghosh sequence charge decoration."""
import random, math
import z3
from vf.sx import *
from oracle import spec as S

ID = "C07"
TITLE = "SCD equals the Sawle-Ghosh sequence charge decoration"
TOL = 1e-9
ASSUMPTIONS = [
    "floats: each product q_m*q_n*sqrt(m-n) is computed by the real float/numpy operations case by case (FD, 9 cases); the double "
    "sum is modelled in exact rational arithmetic of those doubles; sqrt in the reference is math.sqrt (correctly rounded); tolerance 1e-9",
    "all 20^N sequences of a length are covered by one query (no composition split)",
]
OUTSIDE = ["sequence lengths above the bound", "rounding of the N(N-1)/2 floating-point additions (tolerance)"]
NMAX = {"quick": 16, "thorough": 25}
ITEM_TIMEOUT = {"quick": 300, "thorough": 1500}


def bounds(tier):
    return "all sequences over the 20 letters, 1 <= N <= %d, one query per length; plus class-respelling 2-safety query per length" % NMAX[tier]


def items(tier, seed):
    return [dict(name="N%d" % N, N=N) for N in range(NMAX[tier], 0, -1)]


def run_item(item):
    from localcider.sequenceParameters import SequenceParameters
    N = item["N"]
    res = new_result()
    I = interp()
    vs, s = sym_sequence(I, N)
    pos = [is_pos(v) for v in vs]
    neg = [is_neg(v) for v in vs]
    spec, terms = S.scd_z3(pos, neg)
    rng = seeded_rng(N)
    prelude = std_prelude(N)
    run_prelude(prelude)
    HIST = [("get_linear_NCPR", (2,)), ("get_linear_FCR", (2,)), ("get_linear_sigma", (2,)), ("get_countNeg", ()), ("get_phasePlotRegion", ())] if N >= 2 else []

    def thunk():
        sp = I.call(SequenceParameters, [s], {})
        first = I.call(sp.get_SCD, [], {})
        # the same object after other read-only queries (they must not disturb the stored charge pattern)
        for name, args in HIST:
            I.call(getattr(sp, name), list(args), {})
        again = I.call(sp.get_SCD, [], {})
        return first, again

    def cex(m):
        return dict(seq=seq_of_model(m, vs), prelude=prelude, history=[[n, list(a)] for n, a in HIST])

    def on_return(ob, val2, m):
        val, again = val2
        d = zreal(val)
        prove_sum_close(ob, zreal(again) if is_sym(again) else rv(float(again)), [d], TOL, "SCD unchanged after other read-only queries on the same object (N=%d)" % N, cex)
        prove_sum_close(ob, d, terms, TOL, "SCD == Sawle-Ghosh definition (N=%d)" % N, cex)
        # fewer than two charged residues -> exactly 0
        ncharged = count([z3.Or(p, q) for p, q in zip(pos, neg)])
        ob.prove(z3.Implies(ncharged < 2, d == 0), "SCD == 0 with fewer than two charged residues (N=%d)" % N, cex)
        res["samples"].append(dict(item=item["name"], witness=seq_of_model(m, vs), obligation="|SCD_impl - SCD_spec| <= 1e-9 for all 20^%d sequences" % N))
        validate(I, res, val, lambda q: SequenceParameters(q).get_SCD(), vs, [seq_of_model(m, vs)] + sample_seqs(rng, N, 3), label="get_SCD")
    explore(I, res, thunk, on_return, cex, label="get_SCD N=%d" % N)
    return finish(I, res)


def replay(cex):
    from localcider.sequenceParameters import SequenceParameters
    run_prelude(cex.get("prelude"))
    seq = cex["seq"]
    want = S.scd_exact_float(seq)
    try:
        sp = SequenceParameters(seq)
        got = sp.get_SCD()
        for name, args in cex.get("history", []):
            getattr(sp, name)(*args)
        again = sp.get_SCD()
    except Exception as ex:
        return True, "get_SCD(%s) raised %s: %s" % (seq, type(ex).__name__, ex)
    if abs(float(again) - float(want)) > TOL:
        return True, "seq=%s get_SCD after %r on the same object = %r, definition %r" % (seq, cex.get("history"), again, float(want))
    ncharged = sum(1 for c in seq if c in "KRDE")
    bad = abs(float(got) - float(want)) > TOL or (ncharged < 2 and got != 0)
    return bad, "seq=%s get_SCD=%r definition=%r" % (seq, got, float(want))


def finding_key(cex):
    return "seq:" + cex["seq"]


def fallback(item):
    N = item["N"]
    hist = [["get_linear_NCPR", [2]], ["get_linear_FCR", [2]], ["get_linear_sigma", [2]], ["get_countNeg", []], ["get_phasePlotRegion", []]] if N >= 2 else []
    return [dict(seq=q, prelude=std_prelude(N), history=hist) for q in fallback_seqs(item)]
