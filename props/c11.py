"""C11 — complexity profiles: window count, positions, range, locality, WF = entropy."""
import random, ast, math
import z3
from fractions import Fraction as F
from vf.sx import *
from props.c12 import rep_table, expected_alphabet_ok

ID = "C11"
TITLE = "Complexity profiles: window count, positions, range, locality, WF = entropy"
TOL = 1e-9
ASSUMPTIONS = [
    "values are compared with tolerance 1e-9; the range claim is [-1e-9, 1+1e-9] (the real WF maximum on the pinned tree is 1.0000000000000002, pure rounding)",
    "WF reference: -sum_x p_x ln(p_x)/ln(A) over the reduced-alphabet letters x, p_x = count/window, evaluated with math.log per count value; counts are those of the documented "
    "residue groups; math.log(p, A) inside the implementation is the real function evaluated per count case (FD)",
    "for WF windows longer than one residue the range [0,1] is derived from the solver-proved entropy identity and the mathematical bound 0 <= H_A <= log_A(min(w,A)) <= 1 "
    "(if the identity fails the range is queried directly)",
    "locality is established on the encoding: the value of window k mentions only the input variables of its own window (frame argument), and for WF it is a function of the reduced letters by the reference",
    "get_indexed_complexity_vector is additionally encoded as integer arithmetic with a symbolic sequence length and an enumerated vector length K; np.arange(start, stop, step) is modelled "
    "as the arithmetic progression it denotes, with the obligation that it has exactly K elements",
    "complexity profiles are checked for the 12 predefined alphabets; user alphabets inside complexity profiles were tried (symbolic images) and are outside: the encoding was too slow and "
    "produced non-reproducing candidates, so it is not part of the check (their reduction step is C12's subject)",
]
OUTSIDE = ["sequence lengths above the bound", "window/step/word sizes above the bound", "user alphabets inside complexity profiles (their reduction is C12's subject)", "K > 64 / seq_len > 10000 for the position row arithmetic"]
NMAX = {"quick": 5, "thorough": 7}
KMAX = {"quick": 64, "thorough": 256}
ITEM_TIMEOUT = {"quick": 900, "thorough": 3400}
LCSIZES = {"quick": [2, 20], "thorough": [2, 3, 5, 8, 12, 20]}


def bounds(tier):
    return ("WF: 12 alphabets x all sequences N <= %d x all windows and steps; LC/LZW: alphabets %r, word sizes 1..3; rejection of unknown types and w > N; "
            "position row: K <= %d, K <= seq_len <= 10000" % (NMAX[tier], LCSIZES[tier], KMAX[tier]))


def items(tier, seed):
    out = []
    for N in range(NMAX[tier], 0, -1):
        for A in T.ALPHABET_SIZES:
            out.append(dict(name="WF_A%d_N%d" % (A, N), kind="WF", A=A, N=N))
        for A in LCSIZES[tier]:
            out.append(dict(name="LC_A%d_N%d" % (A, N), kind="LC", A=A, N=N))
            out.append(dict(name="LZW_A%d_N%d" % (A, N), kind="LZW", A=A, N=N))
    out.append(dict(name="reject", kind="reject", N=3))
    step = 8
    for k0 in range(1, KMAX[tier] + 1, step):
        out.append(dict(name="index_K%d_%d" % (k0, min(KMAX[tier], k0 + step - 1)), kind="index", k0=k0, k1=min(KMAX[tier], k0 + step - 1), N=0))
    return out


def entropy_term(k, w, A):
    if k == 0 or A < 2:
        return F(0)
    p = k / w
    return F(-(p * math.log(p) / math.log(A)))


def rows_of(val):
    if isinstance(val, tuple) and len(val) == 2 and isinstance(val[0], str) and val[0] == "__vstack__":
        return val[1]
    import numpy as np
    if isinstance(val, np.ndarray) and val.ndim == 2:
        return [[pyscalar(x) for x in r] for r in val]
    return None


def run_item(item):
    from localcider.sequenceParameters import SequenceParameters
    res = new_result()
    I = interp()
    kind, N = item["kind"], item["N"]
    if kind == "index":
        return run_index(item, res, I)
    vs, s = sym_sequence(I, N)
    rng = seeded_rng(N * 17 + item.get("A", 0))
    if kind == "reject":
        for ctype in ("XX", "wf2", None, 5, "RHP"):
            def thunk(ctype=ctype):
                return I.call(I.call(SequenceParameters, [s], {}).get_linear_complexity, [], {"complexityType": ctype, "blobLen": 2})

            def cex(m, ctype=ctype):
                return dict(kind="reject", seq=seq_of_model(m, vs), ctype=repr(ctype), w=2)

            def on_raise(ob, exc, m):
                res["obligations"] += 1; res["discharged"] += 1

            def on_return(ob, val, m, ctype=ctype):
                res["obligations"] += 1; res["sat"] += 1
                c = cex(m); c["label"] = "unknown complexity type %r answered" % (ctype,); res["candidates"].append(c)
            explore(I, res, thunk, on_return, cex, label="reject type %r" % (ctype,), on_raise=on_raise)
        for ctype in ("WF", "LC", "LZW", "wf"):
            for w in (N + 1, N + 2):
                def thunk(ctype=ctype, w=w):
                    return I.call(I.call(SequenceParameters, [s], {}).get_linear_complexity, [], {"complexityType": ctype, "blobLen": w})

                def cex(m, ctype=ctype, w=w):
                    return dict(kind="reject", seq=seq_of_model(m, vs), ctype=repr(ctype), w=w)

                def on_raise(ob, exc, m):
                    res["obligations"] += 1; res["discharged"] += 1

                def on_return(ob, val, m, ctype=ctype, w=w):
                    res["obligations"] += 1; res["sat"] += 1
                    c = cex(m); c["label"] = "window %d > N=%d answered for %s" % (w, N, ctype); res["candidates"].append(c)
                explore(I, res, thunk, on_return, cex, label="reject w>N", on_raise=on_raise)
        res["samples"].append(dict(item="reject", obligation="unknown types and windows longer than the sequence end in an exception on every path"))
        return finish(I, res)
    if kind == "user":
        return run_user(item, res, I, vs, s)
    A = item["A"]
    words = [3] if kind != "LC" else [1, 2, 3]
    for w in range(1, N + 1):
        for st in range(1, N + 1):
            for ws in words:
                K = (N - w) // st + 1

                def cex(m, w=w, st=st, ws=ws):
                    return dict(kind=kind, seq=seq_of_model(m, vs), A=A, w=w, step=st, word=ws)

                def thunk(w=w, st=st, ws=ws):
                    sp = I.call(SequenceParameters, [s], {})
                    red = I.call(sp.get_reduced_alphabet_sequence, [A], {})
                    return I.call(sp.get_linear_complexity, [], {"complexityType": kind, "alphabetSize": A, "blobLen": w, "stepSize": st, "wordSize": ws}), red

                def on_return(ob, val2, m, w=w, st=st, ws=ws, K=K):
                    val, red = val2
                    lab = "%s(A=%d,w=%d,step=%d,word=%d,N=%d)" % (kind, A, w, st, ws, N)
                    rows = rows_of(val)
                    ok = rows is not None and len(rows) == 2 and len(rows[0]) == K and len(rows[1]) == K
                    ob.prove(bool(ok), lab + " is a 2 x K array with K = floor((N-w)/s)+1 = %d" % K, lambda m_: cex(m))
                    if not ok:
                        return
                    pos = [int(x) for x in rows[0]]
                    ob.prove(all(1 <= p <= N for p in pos) and all(pos[i] < pos[i + 1] for i in range(K - 1)), lab + " positions strictly increasing within 1..N", lambda m_: cex(m))
                    alphabet = red[1] if isinstance(red, tuple) else None
                    tab = rep_table(A, alphabet) if alphabet is not None and expected_alphabet_ok(A, alphabet) else None
                    for k in range(K):
                        x = rows[1][k]
                        xz = zreal(x) if is_sym(x) else rv(float(x))
                        if not (kind == "WF" and tab is not None and w > 1):
                            ob.prove(z3.And(xz >= -rv(TOL), xz <= 1 + rv(TOL)), lab + " value %d in [0,1]" % k, cex)
                        win = set("c%d" % i for i in range(k * st, k * st + w))
                        if is_sym(x):
                            ob.prove(z3_consts(xz) <= win, lab + " value %d depends only on the residues of its own window" % k, lambda m_: cex(m))
                        if kind == "WF" and tab is not None:
                            terms = []
                            for r in sorted(set(tab.values())):
                                grp = [a for a in AA if tab[a] == r]
                                cnt = count(in_set(v, grp) for v in vs[k * st:k * st + w])
                                acc = None
                                for j in range(w, -1, -1):
                                    val_j = z3.RealVal(entropy_term(j, w, A))
                                    acc = val_j if acc is None else z3.If(cnt == j, val_j, acc)
                                terms.append(acc)
                            okid = prove_sum_close(ob, xz, terms, TOL, lab + " value %d == Shannon entropy (base %d) of the window's reduced composition" % (k, A), cex)
                            if w > 1:
                                if okid:
                                    # range: consequence of the proved identity and 0 <= H_A <= log_A(min(w, A)) <= 1 (mathematical bound, see ASSUMPTIONS)
                                    res["obligations"] += 1; res["trivial"] += 1
                                else:
                                    ob.prove(z3.And(xz >= -rv(TOL), xz <= 1 + rv(TOL)), lab + " value %d in [0,1]" % k, cex)
                    if len(res["samples"]) < 2:
                        res["samples"].append(dict(item=item["name"], witness=cex(m), obligation=lab + ": shape, positions, range, locality" + (", entropy" if kind == "WF" else "")))
                    if rng.random() < 0.25:
                        c = cex(m)
                        import numpy as np
                        nat = SequenceParameters(c["seq"]).get_linear_complexity(complexityType=kind, alphabetSize=A, blobLen=w, stepSize=st, wordSize=ws)
                        if deep_close(concrete(m, val), nat, 1e-9):
                            res["validated"] += 1
                        else:
                            res["inconclusive"].append("TRANSLATOR-VALIDATION FAILED %s on %s" % (lab, c["seq"]))
                explore(I, res, thunk, on_return, cex, label="%s w=%d s=%d" % (item["name"], w, st))
    return finish(I, res)


def run_user(item, res, I, vs, s):
    """WF / LZW profiles with a total, valid user alphabet whose 20 images are symbolic (at least two distinct images)"""
    from localcider.sequenceParameters import SequenceParameters
    N = item["N"]
    uv = {a: z3.Int("img_%s" % a) for a in AA}
    entries = {}
    for a in AA:
        I.solver.add(uv[a] >= 0, uv[a] < 20)
        entries[a] = (True, FD([(uv[a] == k, AA[k]) for k in range(20)]))
    I.solver.add(z3.Or(*[uv[a] != uv["A"] for a in AA[1:]]))
    ud = SymDict(entries)

    def cex(m, ct="WF", w=1):
        return dict(kind="user", seq=seq_of_model(m, vs), userdict={a: AA[m.eval(uv[a], model_completion=True).as_long()] for a in AA}, ctype=ct, w=w)
    for ct in ("WF", "LZW"):
        for w in range(1, N + 1):
            K = N - w + 1

            def thunk(ct=ct, w=w):
                return I.call(I.call(SequenceParameters, [s], {}).get_linear_complexity, [], {"complexityType": ct, "userAlphabet": ud, "blobLen": w})

            def on_return(ob, val, m, ct=ct, w=w, K=K):
                lab = "%s(user alphabet, w=%d, N=%d)" % (ct, w, N)
                rows = rows_of(val)
                ok = rows is not None and len(rows) == 2 and len(rows[0]) == K and len(rows[1]) == K
                ob.prove(bool(ok), lab + " is a 2 x K array", lambda m_: cex(m, ct, w))
                if not ok:
                    return
                pos = [int(x) for x in rows[0]]
                ob.prove(all(1 <= p <= N for p in pos) and all(pos[i] < pos[i + 1] for i in range(K - 1)), lab + " positions strictly increasing within 1..N", lambda m_: cex(m, ct, w))
                for k in range(K):
                    x = rows[1][k]
                    xz = zreal(x) if is_sym(x) else rv(float(x))
                    ob.prove(z3.And(xz >= -rv(TOL), xz <= 1 + rv(TOL)), lab + " value %d in [0,1]" % k, lambda mm: cex(mm, ct, w))
                if len(res["samples"]) < 2:
                    res["samples"].append(dict(item=item["name"], witness=cex(m, ct, w), obligation=lab + ": shape, positions, range for every total valid user alphabet with >= 2 images"))
            explore(I, res, thunk, on_return, lambda m: cex(m), label="%s %s w=%d" % (item["name"], ct, w))
    return finish(I, res)


def run_index(item, res, I):
    """get_indexed_complexity_vector as integer arithmetic: symbolic seq_len, enumerated vector length K"""
    import numpy as np
    from localcider.backend.sequenceComplexity import SequenceComplexity
    for K in range(item["k0"], item["k1"] + 1):
        L = z3.Int("seq_len")
        I2 = interp(force_interp={"get_indexed_complexity_vector"})
        I2.solver.add(L >= K, L <= 10000)
        captured = {}

        def arange_stub(I_, start, stop, step=1, **kw):
            captured["a"] = (start, stop, step)
            st = to_sym(start); sp_ = to_sym(step)
            return SymArray([Sym(as_int(st) + i * as_int(sp_), "int") for i in range(K)], False)
        I2.stubs[np.arange] = arange_stub

        def cex(m, K=K):
            return dict(kind="index", K=K, seq_len=m.eval(L, model_completion=True).as_long())

        def thunk(K=K):
            return I2.call(SequenceComplexity().get_indexed_complexity_vector, [[0.5] * K, Sym(L, "int")], {})

        def on_return(ob, val, m, K=K):
            start, stop, step = [as_int(to_sym(x)) for x in captured["a"]]
            ob.prove(step >= 1, "position row: step >= 1 (K=%d)" % K, cex)
            ob.prove(z3.And(start + (K - 1) * step < stop, start + K * step >= stop), "position row has exactly K=%d entries" % K, cex)
            ob.prove(z3.And(start >= 1, start + (K - 1) * step <= L), "position row within 1..seq_len (K=%d)" % K, cex)
            if len(res["samples"]) < 2:
                res["samples"].append(dict(item=item["name"], witness=cex(m), obligation="arange(start, stop, step) has K entries, step>=1, all within 1..seq_len, for every K <= seq_len <= 10000"))
            c = cex(m)
            nat = SequenceComplexity().get_indexed_complexity_vector([0.5] * K, c["seq_len"])
            if [int(x) for x in nat[0]] == [int(x) for x in concrete(m, rows_of(val)[0])]:
                res["validated"] += 1
            else:
                res["inconclusive"].append("TRANSLATOR-VALIDATION FAILED index K=%d L=%d" % (K, c["seq_len"]))
        explore(I2, res, thunk, on_return, cex, label="index K=%d" % K)
        finish(I2, res)
    return res


def replay(cex):
    from localcider.sequenceParameters import SequenceParameters
    from localcider.backend.sequenceComplexity import SequenceComplexity
    import numpy as np
    kind = cex["kind"]
    if kind == "index":
        K, L = cex["K"], cex["seq_len"]
        try:
            out = SequenceComplexity().get_indexed_complexity_vector([0.5] * K, L)
        except Exception as ex:
            return True, "get_indexed_complexity_vector(K=%d, seq_len=%d) raised %s: %s" % (K, L, type(ex).__name__, ex)
        pos = [int(x) for x in out[0]]
        bad = len(pos) != K or any(p < 1 or p > L for p in pos) or any(pos[i] >= pos[i + 1] for i in range(K - 1))
        return bad, "K=%d seq_len=%d positions %r" % (K, L, pos[:8])
    seq = cex["seq"]
    N = len(seq)
    sp = SequenceParameters(seq)
    if kind == "user":
        try:
            out = np.asarray(sp.get_linear_complexity(complexityType=cex["ctype"], userAlphabet=cex["userdict"], blobLen=cex["w"]))
        except Exception as ex:
            return True, "%s with user alphabet %r on %s raised %s: %s" % (cex["ctype"], cex["userdict"], seq, type(ex).__name__, ex)
        K = N - cex["w"] + 1
        pos = [int(x) for x in out[0]] if out.ndim == 2 else []
        bad = out.shape != (2, K) or any(p < 1 or p > N for p in pos) or any(pos[i] >= pos[i + 1] for i in range(K - 1)) or any(v < -TOL or v > 1 + TOL for v in out[1])
        return bad, "%s user alphabet %r seq %s w=%d -> %r" % (cex["ctype"], cex["userdict"], seq, cex["w"], out.tolist())
    if kind == "reject":
        ctype = eval(cex["ctype"])
        try:
            sp.get_linear_complexity(complexityType=ctype, blobLen=cex["w"])
        except Exception as ex:
            return False, "rejected with %s" % type(ex).__name__
        return True, "get_linear_complexity(type=%r, window=%d) on %s (N=%d) was answered" % (ctype, cex["w"], seq, N)
    A, w, st, ws = cex["A"], cex["w"], cex["step"], cex["word"]
    try:
        out = np.asarray(sp.get_linear_complexity(complexityType=kind, alphabetSize=A, blobLen=w, stepSize=st, wordSize=ws))
    except Exception as ex:
        return True, "%s(A=%d,w=%d,s=%d) on %s raised %s: %s" % (kind, A, w, st, seq, type(ex).__name__, ex)
    K = (N - w) // st + 1
    if out.shape != (2, K):
        return True, "shape %r, expected (2,%d)" % (out.shape, K)
    pos = [int(x) for x in out[0]]
    if any(p < 1 or p > N for p in pos) or any(pos[i] >= pos[i + 1] for i in range(K - 1)):
        return True, "positions %r" % (pos,)
    red, alphabet = sp.get_reduced_alphabet_sequence(A)
    for k in range(K):
        v = out[1][k]
        if v < -TOL or v > 1 + TOL:
            return True, "%s value %r outside [0,1] (seq=%s, A=%d, w=%d, s=%d)" % (kind, v, seq, A, w, st)
        if kind == "WF":
            win = seq[k * st:k * st + w]
            groups = T.ALPHABETS[A]
            want = sum(float(entropy_term(sum(1 for c in win if c in g), w, A)) for g in groups)
            if abs(v - want) > TOL:
                return True, "WF value %r != entropy %r (seq=%s window %s, A=%d)" % (v, want, seq, win, A)
    # locality: changing residues outside a window must not change its value
    for k in range(K):
        for i in range(N):
            if k * st <= i < k * st + w:
                continue
            alt = seq[:i] + ("W" if seq[i] != "W" else "G") + seq[i + 1:]
            o2 = np.asarray(SequenceParameters(alt).get_linear_complexity(complexityType=kind, alphabetSize=A, blobLen=w, stepSize=st, wordSize=ws))
            if abs(o2[1][k] - out[1][k]) > TOL:
                return True, "%s value of window %d changes when residue %d outside it changes (%s vs %s)" % (kind, k, i + 1, seq, alt)
    return False, "ok"


def finding_key(cex):
    if cex["kind"] == "index":
        return "index:K=%d" % cex["K"]
    return "%s:%s:%s" % (cex["kind"], cex.get("A"), cex["seq"])
