"""C16 — phosphosites are exactly the requested in-range S/T/Y; derived values follow."""
import random, ast, itertools
import z3
from vf.sx import *

ID = "C16"
TITLE = "Phosphosites are exactly the requested in-range S/T/Y; derived values follow"
TOL = 1e-9
ASSUMPTIONS = [
    "inductive step instead of call histories: the pre-state is an arbitrary duplicate-free list of k valid sites (symbolic 0-based indices of S/T/Y residues of the "
    "symbolic sequence), i.e. every state the property allows after any series of set/clear calls; one set_phosphosites / clear_phosphosites call follows",
    "requested positions are unbounded symbolic integers (single int, list, tuple); str() of a symbolic number inside warning texts is an opaque placeholder",
    "derived getters run on an object whose own delta-max cache holds an arbitrary value (over-approximation of 'get_kappa() was called first'); replays call get_kappa() and get_deltaMax() first",
    "kappa of derived sequences is an uninterpreted function of the derived string (its own correctness is C01/C02): the claim is that kappa is applied to exactly the substituted sequence",
]
OUTSIDE = ["sequences longer than the bound, more pre-existing sites / requested positions than the bound", "non-integer requests (strings, floats)"]
NMAX = {"quick": 4, "thorough": 7}
KMAX = {"quick": 2, "thorough": 3}
ITEM_TIMEOUT = {"quick": 900, "thorough": 3400}
SENT = -10 ** 9


def bounds(tier):
    return "all sequences with N <= %d, pre-state of k <= %d sites, requests: int, list/tuple of up to %d unbounded integers, clear; derived getters with k <= %d" % (
        NMAX[tier], KMAX[tier], 2 if tier == "quick" else 3, KMAX[tier])


def items(tier, seed):
    out = []
    shapes = ["int", "list1", "list2", "tuple2"] + (["list3"] if tier == "thorough" else [])
    for N in range(NMAX[tier], 0, -1):
        for k in range(0, min(KMAX[tier], N) + 1):
            for sh in shapes:
                out.append(dict(name="set_N%d_k%d_%s" % (N, k, sh), kind="set", N=N, k=k, shape=sh))
            out.append(dict(name="clear_N%d_k%d" % (N, k), kind="clear", N=N, k=k))
            out.append(dict(name="derived_N%d_k%d" % (N, k), kind="derived", N=N, k=k))
    # derived getters on sequences long enough for kappa to be defined (delta > 0 needs N >= 5)
    for N in ((7,) if tier == "quick" else (7, 8)):
        out.append(dict(name="derived_N%d_k1" % N, kind="derived", N=N, k=1))
    return out


def nth(items, t):
    """z3 Int: value of the t-th present element of a guarded list [(guard z3 Bool, z3 Int value)], SENT when absent"""
    acc = z3.IntVal(SENT)
    for j in range(len(items) - 1, -1, -1):
        g, v = items[j]
        before = [gg for gg, _ in items[:j]]
        cnt = count(before) if before else z3.IntVal(0)
        acc = z3.If(z3.And(g, cnt == t), v, acc)
    return acc


def glist_of(I, lst):
    out = []
    for x in lst:
        if isinstance(x, GItem):
            out.append((zbool(x.g), as_int(to_sym(x.v)) if is_sym(x.v) else z3.IntVal(int(x.v))))
        else:
            out.append((z3.BoolVal(True), as_int(to_sym(x)) if is_sym(x) else z3.IntVal(int(x))))
    return out


def setup(I, N, k):
    from localcider.sequenceParameters import SequenceParameters
    vs, s = sym_sequence(I, N)
    ps = [z3.Int("pre%d" % j) for j in range(k)]
    for j, p in enumerate(ps):
        I.solver.add(p >= 0, p < N)
        I.solver.add(z3.Or(*[z3.And(p == i, in_set(vs[i], T.STY)) for i in range(N)]))
        for q in ps[:j]:
            I.solver.add(p != q)
    return vs, s, ps


def make_obj(I, s, ps):
    from localcider.sequenceParameters import SequenceParameters
    sp = I.call(SequenceParameters, [s], {})
    sp.SeqObj.phosphosites = [Sym(p, "int") for p in ps]
    return sp


def run_item(item):
    from localcider.sequenceParameters import SequenceParameters
    from localcider.backend.sequence import Sequence
    res = new_result()
    I = interp()
    N, k, kind = item["N"], item["k"], item["kind"]
    vs, s, ps = setup(I, N, k)
    sty = lambda x: z3.Or(*[z3.And(x == i + 1, in_set(vs[i], T.STY)) for i in range(N)])      # 1-based position holds S/T/Y

    def pre_of(m):
        return [m.eval(p, model_completion=True).as_long() + 1 for p in ps]
    if kind == "set":
        r = {"int": 1, "list1": 1, "list2": 2, "tuple2": 2, "list3": 3}[item["shape"]]
        xs = [z3.Int("req%d" % j) for j in range(r)]
        sx = [Sym(x, "int") for x in xs]
        arg = sx[0] if item["shape"] == "int" else (tuple(sx) if item["shape"].startswith("tuple") else list(sx))
        # expected: accepted_j
        acc = []
        for j, x in enumerate(xs):
            g = z3.And(x >= 1, x <= N, sty(x), z3.Not(z3.Or(*[p == x - 1 for p in ps])) if ps else z3.BoolVal(True),
                       z3.Not(z3.Or(*[z3.And(acc[i], xs[i] == x) for i in range(j)])) if j else z3.BoolVal(True))
            acc.append(g)
        expected = [(z3.BoolVal(True), p) for p in ps] + [(acc[j], xs[j] - 1) for j in range(r)]

        def cex(m):
            return dict(kind="set", seq=seq_of_model(m, vs), pre=pre_of(m), request=[m.eval(x, model_completion=True).as_long() for x in xs], shape=item["shape"])

        def thunk():
            sp = make_obj(I, s, ps)
            I.call(sp.set_phosphosites, [arg], {})
            return sp, I.call(sp.get_phosphosites, [], {}), I.call(sp.get_phosphosequence, [], {}), I.call(sp.get_sequence, [], {})

        def on_return(ob, val, m):
            sp, sites1, pseq, seq = val
            L = glist_of(I, sp.SeqObj.phosphosites)
            n = k + r
            lenL, lenE = count([g for g, _ in L]), count([g for g, _ in expected])
            claim = z3.And(lenL == lenE, *[nth(L, t) == nth(expected, t) for t in range(n)])
            ob.prove(claim, "stored sites == previous sites ++ requested in-range S/T/Y positions, in order, without repeats (%s)" % item["name"], cex)
            L1 = glist_of(I, sites1)
            E1 = [(g, v + 1) for g, v in expected]
            ob.prove(z3.And(count([g for g, _ in L1]) == lenE, *[nth(L1, t) == nth(E1, t) for t in range(n)]),
                     "get_phosphosites() lists those positions 1-based (%s)" % item["name"], cex)
            t = I.truth(I.str_eq(seq, s))
            ob.prove(zbool(t) if not isinstance(t, bool) else t, "stored sequence unchanged (%s)" % item["name"], cex)
            # phosphosequence: E at exactly the stored positions
            pch = I.chars(pseq) if isinstance(pseq, (str, SymStr)) else None
            if pch is None or len(pch) != N:
                ob.prove(False, "phosphosequence has the sequence's length", lambda m_: cex(m))
            else:
                for i in range(N):
                    phos = z3.Or(*[z3.And(g, v == i) for g, v in expected])
                    want = I.merge(phos, "E", I.chars(s)[i])
                    tt = I.truth(I.binop(ast.Eq(), pch[i], want))
                    ob.prove(zbool(tt) if not isinstance(tt, bool) else tt, "phosphosequence position %d is E iff it is a stored site (%s)" % (i + 1, item["name"]), cex)
            c = cex(m)
            if len(res["samples"]) < 2:
                res["samples"].append(dict(item=item["name"], witness=c, obligation="post-state of one set_phosphosites call from an arbitrary valid pre-state"))
            # translator validation at the witness
            try:
                nat = native_set(c)
                got = [x for x in concrete(m, sites1)]
                if got == nat[0] and concrete(m, pseq) == nat[1]:
                    res["validated"] += 1
                else:
                    res["inconclusive"].append("TRANSLATOR-VALIDATION FAILED %r: %r vs %r" % (c, got, nat))
            except Exception as ex:
                res["inconclusive"].append("TRANSLATOR-VALIDATION: native run raised %s on a returning path %r" % (type(ex).__name__, c))
        explore(I, res, thunk, on_return, cex, label=item["name"])
    elif kind == "clear":
        def cex(m):
            return dict(kind="clear", seq=seq_of_model(m, vs), pre=pre_of(m))

        def thunk():
            sp = make_obj(I, s, ps)
            I.call(sp.clear_phosphosites, [], {})
            return sp, I.call(sp.get_phosphosites, [], {}), I.call(sp.get_sequence, [], {})

        def on_return(ob, val, m):
            sp, sites, seq = val
            ob.prove(isinstance(sites, list) and len(sites) == 0 and isinstance(sp.SeqObj.phosphosites, list) and len(sp.SeqObj.phosphosites) == 0,
                     "clearing empties the list (%s)" % item["name"], lambda m_: cex(m))
            t = I.truth(I.str_eq(seq, s))
            ob.prove(zbool(t) if not isinstance(t, bool) else t, "stored sequence unchanged", cex)
            res["samples"].append(dict(item=item["name"], witness=cex(m), obligation="clear -> []"))
        explore(I, res, thunk, on_return, cex, label=item["name"])
    else:
        # derived getters from an arbitrary valid state with k sites
        log = []
        KF = z3.Function("kappaUF", *([z3.IntSort()] * N + [z3.RealSort()]))

        def kappa_stub(I_, self):
            log.append(getattr(self, "dmax", None))
            ch = I_.chars(self.seq) if isinstance(self.seq, (str, SymStr)) else None
            codes = []
            for c in ch:
                codes.append(as_int(to_sym(mk_fd([(g, IDX.get(v, -1)) for g, v in fd_cases(c)]))) if isinstance(c, FD) else z3.IntVal(IDX.get(c, -1)))
            return Sym(KF(*codes), "real")
        I.stubs[Sequence.kappa] = kappa_stub

        def codes_of(chs):
            return [as_int(to_sym(mk_fd([(g, IDX.get(v, -1)) for g, v in fd_cases(c)]))) if isinstance(c, FD) else z3.IntVal(IDX.get(c, -1)) for c in chs]

        def cex(m):
            return dict(kind="derived", seq=seq_of_model(m, vs), pre=pre_of(m))

        def subst(onmask):
            """expected substituted sequence: E at pre-site j when onmask[j]"""
            base = I.chars(s)
            out = []
            for i in range(N):
                cond = z3.Or(*[ps[j] == i for j in range(k) if onmask[j]]) if any(onmask) else z3.BoolVal(False)
                out.append(I.merge(cond, "E", base[i]) if any(onmask) else base[i])
            return out

        dcache = z3.Real("cached_dmax")
        I.solver.add(dcache >= 0)

        def thunk():
            del log[:]
            sp = make_obj(I, s, ps)
            # the object's own delta-max cache is in an arbitrary filled state (as after get_kappa()/get_deltaMax())
            sp.SeqObj.dmax = Sym(dcache, "real")
            ka = I.call(sp.get_kappa_after_phosphorylation, [], {})
            dist = I.call(sp.get_full_phosphostatus_kappa_distribution, [], {})
            allsty = I.call(sp.get_all_phosphorylatable_sites, [], {})
            return sp, ka, dist, allsty

        def on_return(ob, val, m):
            sp, ka, dist, allsty = val
            nm = item["name"]
            if k > 0:
                # kappa of a substituted sequence must be computed on an object with an empty delta-max cache:
                # the parent's cached delta-max belongs to another composition
                # prefer a witness in which the inherited cache is observable (charged parent, long enough for delta > 0)
                mw = m
                I.solver.push()
                I.solver.add(count(is_pos(v) for v in vs) >= 2, count(is_neg(v) for v in vs) >= 1)
                if I.solver.check() == z3.sat:
                    mw = I.solver.model()
                I.solver.pop()
                ob.prove(all((not is_sym(d)) and d == -1 for d in log), "derived sequence objects do not inherit the parent's delta-max cache (%s)" % nm, lambda m_: cex(mw))
            exp_all = codes_of(subst([True] * k))
            ob.prove(zreal(ka) == KF(*exp_all), "kappa_after_phosphorylation == kappa(sequence with E at every site) (%s)" % nm, cex)
            ok = isinstance(dist, list) and len(dist) == 2 ** k
            ob.prove(bool(ok), "distribution has 2^k entries (%s)" % nm, lambda m_: cex(m))
            if ok:
                for idx, mask in enumerate(itertools.product("01", repeat=k)):
                    on = [b == "1" for b in mask]
                    ent = dist[idx]
                    chs = subst(on)
                    ob.prove(len(ent) == 7 and ent[6] == mask, "entry %d carries the on/off tuple %r in binary counting order (%s)" % (idx, mask, nm), lambda m_: cex(m))
                    ob.prove(zreal(ent[0]) == KF(*codes_of(chs)), "entry %d kappa == kappa(substituted sequence) (%s)" % (idx, nm), cex)
                    pos = [zbool(I.truth(I.contains(T.POS, c))) for c in chs]
                    neg = [zbool(I.truth(I.contains(T.NEG, c))) for c in chs]
                    P, Q = z3.ToReal(count(pos)), z3.ToReal(count(neg))
                    num = lambda x: zreal(x) if is_sym(x) else rv(float(x))
                    ob.prove(z3.And(within(num(ent[1]) - P / N, TOL), within(num(ent[2]) - Q / N, TOL), within(num(ent[3]) - (P + Q) / N, TOL),
                                    within(num(ent[4]) - (P - Q) / N, TOL)), "entry %d f+, f-, FCR, NCPR == those of the substituted sequence (%s)" % (idx, nm), cex)
                    hterms = []
                    for c in chs:
                        hterms.append(zreal(mk_fd([(g, float(T.KD_SHIFTED_EXACT[v]) / N) for g, v in fd_cases(c)])) if isinstance(c, FD) else rv(float(T.KD_SHIFTED_EXACT[c]) / N))
                    prove_sum_close(ob, num(ent[5]), hterms, TOL, "entry %d hydropathy == that of the substituted sequence (%s)" % (idx, nm), cex)
            # all phosphorylatable sites
            Ls = glist_of(I, allsty)
            Es = [(in_set(vs[i], T.STY), z3.IntVal(i + 1)) for i in range(N)]
            ob.prove(z3.And(count([g for g, _ in Ls]) == count([g for g, _ in Es]), *[nth(Ls, t) == nth(Es, t) for t in range(N)]),
                     "get_all_phosphorylatable_sites lists exactly the S/T/Y positions (%s)" % nm, cex)
            if len(res["samples"]) < 2:
                res["samples"].append(dict(item=nm, witness=cex(m), obligation="kappa_after, 2^k distribution entries and S/T/Y sites from an arbitrary valid state"))
        explore(I, res, thunk, on_return, cex, label=item["name"])
    res["notes"].extend(sorted(I.notes))
    return finish(I, res)


def native_set(c):
    from localcider.sequenceParameters import SequenceParameters
    sp = SequenceParameters(c["seq"])
    sp.SeqObj.phosphosites = [p - 1 for p in c["pre"]]
    req = c["request"]
    arg = req[0] if c["shape"] == "int" else (tuple(req) if c["shape"].startswith("tuple") else list(req))
    sp.set_phosphosites(arg)
    return sp.get_phosphosites(), sp.get_phosphosequence(), sp.get_sequence()


def replay(cex):
    from localcider.sequenceParameters import SequenceParameters
    seq = cex["seq"]
    N = len(seq)
    pre = cex.get("pre", [])
    if cex["kind"] == "set":
        want = list(pre)
        for x in cex["request"]:
            if 1 <= x <= N and seq[x - 1] in T.STY and x not in want:
                want.append(x)
        try:
            sites, pseq, after = native_set(cex)
        except Exception as ex:
            return True, "set_phosphosites(%r) on %s with sites %r raised %s: %s" % (cex["request"], seq, pre, type(ex).__name__, ex)
        wantp = "".join("E" if (i + 1) in want else c for i, c in enumerate(seq))
        bad = sites != want or pseq != wantp or after != seq
        return bad, "seq=%s sites before %r, request %r -> sites %r (expected %r), phosphosequence %r (expected %r)" % (seq, pre, cex["request"], sites, want, pseq, wantp)
    sp = SequenceParameters(seq)
    sp.SeqObj.phosphosites = [p - 1 for p in pre]
    if cex["kind"] == "derived":
        # real history that fills the object's delta-max cache first
        sp.get_kappa(); sp.get_deltaMax()
    if cex["kind"] == "clear":
        sp.clear_phosphosites()
        return sp.get_phosphosites() != [] or sp.get_sequence() != seq, "after clear: %r" % (sp.get_phosphosites(),)
    # derived
    try:
        ka = sp.get_kappa_after_phosphorylation()
        dist = sp.get_full_phosphostatus_kappa_distribution()
        allsty = sp.get_all_phosphorylatable_sites()
    except Exception as ex:
        return True, "derived getters raised %s on %s sites %r" % (type(ex).__name__, seq, pre)
    full = "".join("E" if (i + 1) in pre else c for i, c in enumerate(seq))
    if abs(ka - SequenceParameters(full).get_kappa()) > TOL:
        return True, "kappa_after %r != kappa(%s)" % (ka, full)
    if allsty != [i + 1 for i, c in enumerate(seq) if c in T.STY]:
        return True, "all sites %r" % (allsty,)
    if len(dist) != 2 ** len(pre):
        return True, "distribution has %d entries for %d sites" % (len(dist), len(pre))
    for idx, mask in enumerate(itertools.product("01", repeat=len(pre))):
        q = list(seq)
        for j, b in enumerate(mask):
            if b == "1":
                q[pre[j] - 1] = "E"
        q = "".join(q)
        ref = SequenceParameters(q)
        want = (ref.get_kappa(), ref.get_fraction_positive(), ref.get_fraction_negative(), ref.get_FCR(), ref.get_NCPR(), ref.get_mean_hydropathy())
        ent = dist[idx]
        if tuple(ent[6]) != mask or any(abs(a - b) > TOL for a, b in zip(ent[:6], want)):
            return True, "entry %d = %r, substituted sequence %s gives %r" % (idx, ent, q, want)
    return False, "ok"


def finding_key(cex):
    if cex["kind"] == "set":
        N = len(cex["seq"])
        cls = sorted({("zero-or-negative" if x <= 0 else ("beyond-end" if x > N else "in-range")) for x in cex["request"]})
        return "set:" + ",".join(cls)
    return "%s:%s" % (cex["kind"], cex["seq"])
