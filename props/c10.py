"""C10 — sliding-window profiles report each window's statistic at its centre position."""
import random, ast
import z3
from fractions import Fraction as F
from vf.sx import *
from oracle import spec as S

ID = "C10"
TITLE = "Sliding-window profiles report each window's statistic at its centre position"
TOL = 1e-9
ASSUMPTIONS = [
    "floats: per-window values are the real float operations on the entailed counts / table entries (FD or exact rationals of the doubles); tolerance 1e-9",
    "a window longer than the sequence must end in an exception (any exception type counts as 'rejected with an error')",
    "user groups for the composition profile are symbolic subsets of the 20 letters (one membership Boolean per letter and group), presented as lists of upper-case letters",
    "the delta/sigma-profile relation is checked per composition (n+, n-) so that the global sigma is a constant of the item",
]
OUTSIDE = ["sequence lengths above the bound", "groups given in lower case or as strings (covered by C06 for kappa_X's parser, same helper)"]
NMAX = {"quick": 7, "thorough": 12}
NDELTA = {"quick": 7, "thorough": 9}
ITEM_TIMEOUT = {"quick": 400, "thorough": 2400}
FUNCS = ["get_linear_NCPR", "get_linear_FCR", "get_linear_sigma", "get_linear_hydropathy"]
DEFAULT_GROUPS = ["ED", "RK", "RKED", "QNSTGHC", "ALMIV", "FYW", "P"]


def bounds(tier):
    return ("all sequences over the 20 letters with 1 <= N <= %d, every window 1..N+3, 4 profile functions; composition profile with default groups "
            "and with 2 symbolic groups (N <= %d); delta relation per composition for N <= %d" % (NMAX[tier], min(NMAX[tier], 6 if tier == "quick" else 8), NDELTA[tier]))


def items(tier, seed):
    out = []
    for N in range(NMAX[tier], 0, -1):
        for fn in FUNCS:
            out.append(dict(name="%s_N%d" % (fn, N), kind="prof", fn=fn, N=N))
        out.append(dict(name="composition_default_N%d" % N, kind="comp", groups="default", N=N))
        if N <= (6 if tier == "quick" else 8):
            out.append(dict(name="composition_symbolic_N%d" % N, kind="comp", groups="symbolic", N=N))
    for N in range(5, NDELTA[tier] + 1):
        for a in range(N + 1):
            for b in range(N + 1 - a):
                out.append(dict(name="deltarel_N%d_p%d_n%d" % (N, a, b), kind="delta", N=N, npos=a, nneg=b))
    return out


def window_stat_spec(fn, vs, i, w):
    """z3 Real: statistic of the window starting at i (0-based)"""
    win = vs[i:i + w]
    p = count(is_pos(v) for v in win)
    n = count(is_neg(v) for v in win)
    if fn == "get_linear_NCPR":
        return z3.ToReal(p - n) / w
    if fn == "get_linear_FCR":
        return z3.ToReal(p + n) / w
    if fn == "get_linear_sigma":
        return S.table2(p, n, w, lambda a, b: S.sigma_exact(a, b, w))
    if fn == "get_linear_hydropathy":
        terms = []
        for v in win:
            acc = None
            for a in reversed(AA):
                val = z3.RealVal(T.KD_UVERSKY_EXACT[a] / w)
                acc = val if acc is None else z3.If(v == IDX[a], val, acc)
            terms.append(acc)
        return terms
    raise KeyError(fn)


def window_stat_exact(fn, seq, i, w):
    win = seq[i:i + w]
    p = sum(1 for c in win if c in T.POS)
    n = sum(1 for c in win if c in T.NEG)
    if fn == "get_linear_NCPR":
        return F(p - n, w)
    if fn == "get_linear_FCR":
        return F(p + n, w)
    if fn == "get_linear_sigma":
        return S.sigma_exact(p, n, w)
    if fn == "get_linear_hydropathy":
        return sum(T.KD_UVERSKY_EXACT[c] for c in win) / w
    raise KeyError(fn)


GLOBAL = {"get_linear_NCPR": "get_NCPR", "get_linear_FCR": "get_FCR", "get_linear_hydropathy": "get_uversky_hydropathy"}


def rows_of(val):
    if isinstance(val, tuple) and len(val) == 2 and isinstance(val[0], str) and val[0] == "__vstack__":
        return val[1]
    import numpy as np
    if isinstance(val, np.ndarray) and val.ndim == 2:
        return [[pyscalar(x) for x in r] for r in val]
    return None


def check_profile_row(ob, row, N, w, spec_at, label, cex):
    """row: list of N symbolic/concrete entries"""
    lead = (w - 1) // 2
    nb = N - w + 1
    for j in range(N):
        x = zreal(row[j]) if is_sym(row[j]) else rv(float(row[j]))
        if lead <= j < lead + nb:
            sp_ = spec_at(j - lead)
            lab_ = "%s entry %d == statistic of window starting at residue %d" % (label, j + 1, j - lead + 1)
            if isinstance(sp_, list):
                prove_sum_close(ob, x, sp_, TOL, lab_, cex)
            else:
                ob.prove(within(x - sp_, TOL), lab_, cex)
        else:
            ob.prove(x == 0, "%s flank entry %d == 0" % (label, j + 1), cex)


def run_item(item):
    from localcider.sequenceParameters import SequenceParameters
    res = new_result()
    I = interp()
    N = item["N"]
    vs, s = sym_sequence(I, N)
    rng = seeded_rng(N * 31 + len(item["name"]))
    kind = item["kind"]
    if kind == "delta":
        return run_delta(item, res, I, vs, s, rng)
    if kind == "comp":
        return run_comp(item, res, I, vs, s, rng)
    fn = item["fn"]
    for w in range(1, N + 4):
        def cex(m, w=w):
            return dict(seq=seq_of_model(m, vs), fn=fn, w=w)

        def thunk(w=w):
            sp = I.call(SequenceParameters, [s], {})
            prof = I.call(getattr(sp, fn), [w], {})
            glob = I.call(getattr(sp, GLOBAL[fn]), [], {}) if (w == N and fn in GLOBAL) else None
            return prof, glob

        def on_raise(ob, exc, m, w=w):
            res["obligations"] += 1
            if w > N:
                res["discharged"] += 1
            else:
                res["sat"] += 1
                c = cex(m); c["label"] = "%s(%d) raised %s for N=%d" % (fn, w, type(exc).__name__, N); res["candidates"].append(c)

        def on_return(ob, val, m, w=w):
            prof, glob = val
            if w > N:
                res["obligations"] += 1; res["sat"] += 1
                c = cex(m); c["label"] = "%s(%d) answered for N=%d (window longer than the sequence)" % (fn, w, N); res["candidates"].append(c)
                return
            rows = rows_of(prof)
            lab = "%s(w=%d,N=%d)" % (fn, w, N)
            ok = rows is not None and len(rows) == 2 and len(rows[0]) == N and len(rows[1]) == N and not I.deep_symbolic(rows[0]) and [int(x) for x in rows[0]] == list(range(1, N + 1))
            ob.prove(bool(ok), lab + " shape 2xN with positions 1..N", lambda m_: cex(m))
            if not ok:
                return
            check_profile_row(ob, rows[1], N, w, lambda i: window_stat_spec(fn, vs, i, w), lab, cex)
            if glob is not None:
                x = zreal(rows[1][(w - 1) // 2]) if is_sym(rows[1][(w - 1) // 2]) else rv(float(rows[1][(w - 1) // 2]))
                gz = zreal(glob) if is_sym(glob) else rv(float(glob))
                prove_sum_close(ob, x, [gz], TOL, lab + " single window value == %s()" % GLOBAL[fn], cex)
            if len(res["samples"]) < 2:
                res["samples"].append(dict(item=item["name"], w=w, witness=seq_of_model(m, vs), obligation=lab + ": every entry == window statistic / flank zero, all 20^%d sequences" % N))
            import numpy as np
            validate(I, res, prof, lambda q: getattr(SequenceParameters(q), fn)(w), vs, [seq_of_model(m, vs)] + sample_seqs(rng, N, 1), label=lab)
        explore(I, res, thunk, on_return, cex, label="%s w=%d N=%d" % (fn, w, N), on_raise=on_raise)
    return finish(I, res)


def run_comp(item, res, I, vs, s, rng):
    from localcider.sequenceParameters import SequenceParameters
    import localcider.sequenceParameters as SPM
    import localcider.backend.sequence as SEQ
    N = item["N"]
    symbolic = item["groups"] == "symbolic"
    if symbolic:
        mem = [[z3.Bool("g%d_%s" % (k, a)) for a in AA] for k in range(2)]
        groups = [GList([(mem[k][j], AA[j]) for j in range(20)]) for k in range(2)]
        ngroups = 2
        member = lambda k, v: z3.Or(*[z3.And(mem[k][j], v == j) for j in range(20)])
    else:
        groups = None
        ngroups = 7
        member = lambda k, v: in_set(v, DEFAULT_GROUPS[k])

    def reset_defaults():
        # the shared default-argument lists are restored before every symbolic run (history effects are C15's subject)
        SPM.SequenceParameters.get_linear_sequence_composition.__defaults__[1][:] = []
        SEQ.Sequence.linearCompositions.__defaults__[0][:] = []
    for w in range(1, N + 4):
        def cex(m, w=w):
            d = dict(seq=seq_of_model(m, vs), fn="get_linear_sequence_composition", w=w)
            if symbolic:
                d["groups"] = [[AA[j] for j in range(20) if z3.is_true(m.eval(mem[k][j], model_completion=True))] for k in range(2)]
            return d

        def thunk(w=w):
            reset_defaults()
            sp = I.call(SequenceParameters, [s], {})
            if symbolic:
                return I.call(sp.get_linear_sequence_composition, [w, [groups[0], groups[1]]], {})
            first = I.call(sp.get_linear_sequence_composition, [w], {})
            if w > N:
                return first
            # a second default call (another object, same process): the shared default group lists are in their used state now
            sp2 = I.call(SequenceParameters, [s], {})
            second = I.call(sp2.get_linear_sequence_composition, [w], {})
            return ("__two__", first, second)

        def on_raise(ob, exc, m, w=w):
            res["obligations"] += 1
            if w > N:
                res["discharged"] += 1
            else:
                res["sat"] += 1
                c = cex(m); c["label"] = "composition(%d) raised %s for N=%d" % (w, type(exc).__name__, N); res["candidates"].append(c)

        def on_return(ob, val, m, w=w):
            if w > N:
                res["obligations"] += 1; res["sat"] += 1
                c = cex(m); c["label"] = "composition(%d) answered for N=%d" % (w, N); res["candidates"].append(c)
                return
            lab = "composition(w=%d,N=%d,%s)" % (w, N, item["groups"])
            if isinstance(val, tuple) and len(val) == 3 and isinstance(val[0], str) and val[0] == "__two__":
                e_ = sym_equal(I, val[2], val[1], TOL)
                ob.prove(zbool(e_) if e_ is not None else False, lab + ": a second default call returns the same profile as the first", lambda mm: dict(cex(mm), second_call=True))
                val = val[1]
            ok = isinstance(val, tuple) and len(val) == 2
            rows = None
            if ok:
                pos, dens = val
                rows = rows_of(dens)
                if rows is None and isinstance(dens, list):
                    rows = [dens]
                ok = rows is not None and len(rows) == ngroups and all(len(r) == N for r in rows) and [int(x) for x in list(pos)] == list(range(1, N + 1))
            ob.prove(bool(ok), lab + " shape (positions 1..N, one row per group)", lambda m_: cex(m))
            if not ok:
                return
            for k in range(ngroups):
                check_profile_row(ob, rows[k], N, w, lambda i, k=k: [z3.If(member(k, v), z3.RealVal(1) / w, z3.RealVal(0)) for v in vs[i:i + w]], lab + " group %d" % k, cex)
            if len(res["samples"]) < 2:
                res["samples"].append(dict(item=item["name"], w=w, witness=cex(m), obligation=lab + ": density rows == per-window group fractions"))
        explore(I, res, thunk, on_return, cex, label="composition w=%d N=%d" % (w, N), on_raise=on_raise)
    reset_defaults()
    return finish(I, res)


def run_delta(item, res, I, vs, s, rng):
    from localcider.sequenceParameters import SequenceParameters
    N, a, b = item["N"], item["npos"], item["nneg"]
    I.solver.add(composition(vs, a, b))
    sig = S.sigma_exact(a, b, N)

    def cex(m):
        return dict(seq=seq_of_model(m, vs), fn="delta_relation")

    def thunk():
        sp = I.call(SequenceParameters, [s], {})
        d = I.call(sp.get_delta, [], {})
        p5 = I.call(sp.get_linear_sigma, [5], {})
        p6 = I.call(sp.get_linear_sigma, [6], {}) if N >= 6 else None
        return d, p5, p6

    def on_return(ob, val, m):
        d, p5, p6 = val
        terms = []
        for w, prof in ((5, p5), (6, p6)):
            if prof is None:
                continue
            row = rows_of(prof)[1]
            lead = (w - 1) // 2
            nb = N - w + 1
            for j in range(lead, lead + nb):
                dev = I.binop(ast.Sub(), float(sig), row[j])
                sq = I.binop(ast.Mult(), dev, dev)
                terms.append(zreal(sq) / (2 * nb))
        prove_sum_close(ob, zreal(d), terms, TOL, "delta == mean squared deviation of the w=5,6 sigma profiles from global sigma (%s)" % item["name"], cex)
        if not res["samples"]:
            res["samples"].append(dict(item=item["name"], witness=seq_of_model(m, vs), obligation="delta vs sigma profiles"))
    explore(I, res, thunk, on_return, cex, label=item["name"])
    return finish(I, res)


def replay(cex):
    from localcider.sequenceParameters import SequenceParameters
    import numpy as np
    seq, fn = cex["seq"], cex["fn"]
    N = len(seq)
    sp = SequenceParameters(seq)
    if fn == "delta_relation":
        d = sp.get_delta()
        q = S.classes(seq)
        sig = S.sigma_exact(q.count(1), q.count(-1), N)
        tot = 0.0
        for w in (5, 6):
            if w > N:
                continue
            row = sp.get_linear_sigma(w)[1]
            lead = (w - 1) // 2
            nb = N - w + 1
            tot += sum((float(sig) - row[j]) ** 2 for j in range(lead, lead + nb)) / nb / 2
        return abs(d - tot) > TOL, "seq=%s delta=%r from profiles=%r" % (seq, d, tot)
    w = cex["w"]
    groups = cex.get("groups")
    if cex.get("second_call"):
        a = SequenceParameters(seq).get_linear_sequence_composition(w)
        b = SequenceParameters(seq).get_linear_sequence_composition(w)
        c = SequenceParameters(seq).get_linear_sequence_composition(w)
        same = all(np.asarray(x[1]).shape == np.asarray(a[1]).shape and np.allclose(np.asarray(x[1]), np.asarray(a[1])) for x in (b, c)) and np.asarray(a[1]).shape == (7, N)
        return not same, "consecutive default get_linear_sequence_composition(%d) calls on %s give shapes %r" % (w, seq, [np.asarray(x[1]).shape for x in (a, b, c)])
    try:
        if fn == "get_linear_sequence_composition":
            out = sp.get_linear_sequence_composition(w, [list(g) for g in groups]) if groups is not None else SequenceParameters(seq).get_linear_sequence_composition(w, [list(g) for g in DEFAULT_GROUPS])
        else:
            out = getattr(sp, fn)(w)
    except Exception as ex:
        return w <= N, "%s(%d) on %s (N=%d) raised %s: %s" % (fn, w, seq, N, type(ex).__name__, ex)
    if w > N:
        return True, "%s(%d) on %s (N=%d) was answered: %r" % (fn, w, seq, N, np.asarray(out[1]).tolist() if fn != "get_linear_sequence_composition" else "...")
    lead = (w - 1) // 2
    nb = N - w + 1
    if fn == "get_linear_sequence_composition":
        gs = groups if groups is not None else DEFAULT_GROUPS
        pos, dens = out
        dens = np.atleast_2d(np.asarray(dens))
        if list(pos) != list(range(1, N + 1)) or dens.shape != (len(gs), N):
            return True, "shape %r" % (dens.shape,)
        for k, g in enumerate(gs):
            for j in range(N):
                want = F(sum(1 for c in seq[j - lead:j - lead + w] if c in g), w) if lead <= j < lead + nb else 0
                if abs(dens[k][j] - float(want)) > TOL:
                    return True, "seq=%s w=%d group %r entry %d = %r, definition %r" % (seq, w, g, j + 1, dens[k][j], float(want))
        return False, "ok"
    arr = np.asarray(out)
    if arr.shape != (2, N) or [int(x) for x in arr[0]] != list(range(1, N + 1)):
        return True, "shape %r" % (arr.shape,)
    for j in range(N):
        want = window_stat_exact(fn, seq, j - lead, w) if lead <= j < lead + nb else 0
        if abs(arr[1][j] - float(want)) > TOL:
            return True, "seq=%s %s(%d) entry %d = %r, definition %r" % (seq, fn, w, j + 1, arr[1][j], float(want))
    if w == N and fn in GLOBAL:
        g = getattr(sp, GLOBAL[fn])()
        if abs(arr[1][lead] - g) > TOL:
            return True, "w=N value %r != %s() %r" % (arr[1][lead], GLOBAL[fn], g)
    return False, "ok"


def finding_key(cex):
    if cex["fn"] == "delta_relation":
        return "delta_relation:" + cex["seq"]
    N = len(cex["seq"])
    w = cex["w"]
    if w > N:
        return "%s:w=N+%d" % (cex["fn"], w - N)
    return "%s:w=%d:%s" % (cex["fn"], w, cex["seq"])
