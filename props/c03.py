"""C03 — delta-max is attained, composition-only, and matches the documented search."""
import random, ast
import z3
from fractions import Fraction as F
from vf.sx import *
from oracle import spec as S

ID = "C03"
TITLE = "Delta-max is attained, composition-only, and matches the documented search"
TOL = 1e-9
ASSUMPTIONS = [
    "work items fix the composition (n+, n-, N) with the oracle's classes; arrangement and 20-letter spelling are symbolic; the candidate loop of "
    "deltaMax then runs on entailed concrete counts (the candidates are concrete +/-/0 strings evaluated by the real delta code)",
    "where the documentation is ambiguous (charged and neutral blocks of equal length in the one-charge-type regime; n+ == n- without neutrals) the maximum of either family is accepted",
    "delta of the returned permutant is evaluated with the oracle's exact Das-Pappu definition on the permutant's symbolic classes (C02 relates it to get_delta)",
]
OUTSIDE = ["sequence lengths above the bound"]
NMAX = {"quick": 9, "thorough": 16}
NPERM = {"quick": 8, "thorough": 10}
ITEM_TIMEOUT = {"quick": 400, "thorough": 2400}


def bounds(tier):
    return ("every composition (n+, n-, N) with N <= %d (value, composition-only), plus compositions with 17, 18, 19 neutrals and small charge counts "
            "(both sides of the regime switch); returned permutant with symbolic spelling for N <= %d" % (NMAX[tier], NPERM[tier]))


def items(tier, seed):
    out = comp_items(1, NMAX[tier])
    for it in out:
        it["perm"] = it["N"] <= NPERM[tier]
    # both sides of the 17/18-neutral switch of the documented search (lengths beyond NMAX; value and composition-only claims)
    seen = {it["name"] for it in out}
    for n0 in (17, 18, 19):
        pairs = [(1, 5), (1, 7), (2, 7), (2, 2), (1, 1), (3, 6)] if tier == "quick" else [(a, b) for a in range(0, 4) for b in range(0, 9)]
        for (a, b) in pairs:
            for (x, y) in ((a, b), (b, a)):
                N = n0 + x + y
                nm = "N%d_p%d_n%d" % (N, x, y)
                if nm not in seen:
                    seen.add(nm)
                    out.append(dict(name=nm, N=N, npos=x, nneg=y, perm=False))
    return out


def run_item(item):
    from localcider.sequenceParameters import SequenceParameters
    N, a, b = item["N"], item["npos"], item["nneg"]
    res = new_result()
    I = interp()
    vs, s = sym_sequence(I, N)
    I.solver.add(composition(vs, a, b))
    want, acceptable = S.deltamax_family(a, b, N)
    rng = seeded_rng(N * 1009 + a * 31 + b)
    prelude = std_prelude(N, a, b)
    run_prelude(prelude)

    def cex(m):
        return dict(seq=seq_of_model(m, vs), prelude=prelude)

    def value_ok(ob, v, m, what):
        if is_sym(v):
            # composition-only: the value must be the same for every arrangement/spelling of the composition
            z = zreal(v)
            ob.prove(z3.Or(*[within(z - rv(w), TOL) for w in acceptable]), "%s == documented family maximum (%s)" % (what, item["name"]), cex)
        else:
            ok = isinstance(v, (int, float)) and any(abs(float(v) - float(w)) <= TOL for w in acceptable)
            ob.prove(bool(ok), "%s == documented family maximum, same for every arrangement (%s)" % (what, item["name"]), lambda m_: cex(m))

    def thunk1():
        sp = I.call(SequenceParameters, [s], {})
        return I.call(sp.get_deltaMax, [], {})

    def on1(ob, v, m):
        value_ok(ob, v, m, "get_deltaMax()")
        validate(I, res, v, lambda q: SequenceParameters(q).get_deltaMax(), vs, [seq_of_model(m, vs)] + comp_samples(rng, N, a, b, 1), label="get_deltaMax")
        if not res["samples"]:
            res["samples"].append(dict(item=item["name"], witness=seq_of_model(m, vs), value=float(v) if not is_sym(v) else "symbolic",
                                       obligation="deltaMax == max over documented candidate family = %s, for every arrangement and spelling" % float(want)))
    explore(I, res, thunk1, on1, cex, label="get_deltaMax " + item["name"])
    if item.get("perm"):
        def thunk2():
            sp = I.call(SequenceParameters, [s], {})
            return I.call(sp.get_deltaMax, [True], {})

        def on2(ob, val, m):
            ok = isinstance(val, tuple) and len(val) == 2
            ob.prove(bool(ok), "get_deltaMax(True) returns a pair", lambda m_: cex(m))
            if not ok:
                return
            v, perm = val
            value_ok(ob, v, m, "get_deltaMax(True)[0]")
            if not isinstance(perm, (str, SymStr)):
                res["obligations"] += 1; res["sat"] += 1
                c = cex(m); c["label"] = "get_deltaMax(True) returned %r instead of a permutant" % (perm,); c["perm"] = True
                res["candidates"].append(c)
                return
            pch = I.chars(perm)
            ob.prove(len(pch) == N, "permutant has the input's length", lambda m_: dict(cex(m), perm=True))
            if len(pch) != N:
                return

            def cexp(mm):
                return dict(seq=seq_of_model(mm, vs), perm=True, prelude=prelude)
            # same multiset of residues
            for aa in AA:
                cin = count(v_ == IDX[aa] for v_ in vs)
                cout = count(zbool(I.truth(I.binop(ast.Eq(), ch, aa))) for ch in pch)
                ob.prove(cin == cout, "permutant has as many %s as the input (%s)" % (aa, item["name"]), cexp)
            # delta(permutant) == delta-max
            pos = [zbool(I.truth(I.contains(T.POS, ch))) for ch in pch]
            neg = [zbool(I.truth(I.contains(T.NEG, ch))) for ch in pch]
            dspec, _ = S.delta_z3_fixed_comp(pos, neg, a, b)
            vz = zreal(v) if is_sym(v) else rv(float(v))
            ob.prove(within(dspec - vz, TOL), "delta(permutant) == delta-max (%s)" % item["name"], cexp)
            validate(I, res, perm, lambda q: SequenceParameters(q).get_deltaMax(True)[1], vs, [seq_of_model(m, vs)], label="permutant")
        explore(I, res, thunk2, on2, cex, label="get_deltaMax(True) " + item["name"])
    return finish(I, res)


def replay(cex):
    from localcider.sequenceParameters import SequenceParameters
    run_prelude(cex.get("prelude"))
    seq = cex["seq"]
    N = len(seq)
    a = sum(1 for c in seq if c in T.POS)
    b = sum(1 for c in seq if c in T.NEG)
    want, acceptable = S.deltamax_family(a, b, N)
    try:
        if cex.get("perm"):
            out = SequenceParameters(seq).get_deltaMax(True)
            if not (isinstance(out, tuple) and len(out) == 2):
                return True, "get_deltaMax(True) -> %r" % (out,)
            v, perm = out
            if not isinstance(perm, str):
                return True, "seq=%s get_deltaMax(True) -> (%r, %r): no permutant returned" % (seq, v, perm)
            if sorted(perm) != sorted(seq):
                return True, "seq=%s permutant %s is not a rearrangement" % (seq, perm)
            if abs(float(S.delta_exact(perm)) - v) > TOL:
                return True, "seq=%s permutant %s has delta %r != delta-max %r" % (seq, perm, float(S.delta_exact(perm)), v)
        else:
            v = SequenceParameters(seq).get_deltaMax()
    except Exception as ex:
        return True, "get_deltaMax on %s raised %s: %s" % (seq, type(ex).__name__, ex)
    bad = not any(abs(float(v) - float(w)) <= TOL for w in acceptable)
    return bad, "seq=%s deltaMax=%r documented family maximum=%r" % (seq, v, float(want))


def finding_key(cex):
    seq = cex["seq"]
    a = sum(1 for c in seq if c in T.POS)
    b = sum(1 for c in seq if c in T.NEG)
    if cex.get("perm") and a + b == 0:
        return "uncharged:get_deltaMax(True) returns no permutant"
    return "comp:%d,%d,%d%s" % (a, b, len(seq), ":perm" if cex.get("perm") else "")


def fallback(item):
    pre = std_prelude(item["N"], item["npos"], item["nneg"])
    return [dict(seq=q, prelude=pre) for q in fallback_seqs(item, 3)] + ([dict(seq=q, perm=True, prelude=pre) for q in fallback_seqs(item, 3)] if item.get("perm") else [])
