"""C17 — shuffles and moves only rearrange, keep frozen sites, stay self-consistent."""
import random, ast, itertools
import z3
from vf.sx import *
from symx.stubs import install_rng
from props.c13 import state_eq

ID = "C17"
TITLE = "Shuffles and moves only rearrange, keep frozen sites, stay self-consistent"
TOL = 1e-9
ASSUMPTIONS = [
    "random.Random is a nondeterministic stub: shuffle() yields an arbitrary permutation, sample(sequence, k) k distinct positions (TypeError for a set, as in Python >= 3.11; "
    "ValueError when the population is too small), randint(a, b) an arbitrary integer in [a, b], random() an arbitrary real in [0, 1); seed() accepts anything; time.time() returns 0.0",
    "the parent object's delta-max cache is either empty (-1) or holds an arbitrary non-negative value (over-approximation of the cached delta-max); the child must carry exactly the parent's value "
    "(same composition, hence the same delta-max) or -1",
    "block / cluster moves: Sequence.delta is replaced by an arbitrary real (fresh per call), so the retry loop may stop after any iteration; since every iteration restarts from the parent, "
    "the returned child is the product of the final iteration alone and one iteration is explored (termination of the retry loops is not claimed)",
]
OUTSIDE = ["sequences longer than the bound", "statistical uniformity of the shuffles", "chains of more than one move (each move is checked from an arbitrary valid parent state)",
           "permute_cluster_charges: not encoded within reach (list pops on symbolically filtered index lists; > 20 min for N = 6, and the real retry loop does not terminate for N < 6, "
           "so shorter counterexamples cannot be replayed); natively it is observed to ignore `frozen` like the block move",
           "termination of the retry loop of permute_block_swap"]
NMAX = {"quick": 4, "thorough": 6}
ITEM_TIMEOUT = {"quick": 1200, "thorough": 3400}


def bounds(tier):
    return "all sequences with N <= %d x every frozen set x every RNG outcome; full_shuffle, get_shuffled_sequence, get_permutant, swapRes, swapRandChargeRes; block move for N in %r" % (NMAX[tier], (4, 5) if tier == 'quick' else (4, 5, 6, 7))


def items(tier, seed):
    out = []
    for N in range(NMAX[tier], 0, -1):
        for r in range(N + 1):
            for fz in itertools.combinations(range(N), r):
                out.append(dict(name="full_shuffle_N%d_f%s" % (N, "".join(map(str, fz)) or "-"), kind="full_shuffle", N=N, frozen=list(fz)))
        out.append(dict(name="get_shuffled_N%d" % N, kind="get_shuffled", N=N, frozen=[0] if N > 1 else []))
        out.append(dict(name="get_permutant_N%d" % N, kind="get_permutant", N=N, frozen=[]))
        out.append(dict(name="swapRes_N%d" % N, kind="swapRes", N=N, frozen=[]))
        for r in range(min(N, 2) + 1):
            for fz in itertools.combinations(range(N), r):
                out.append(dict(name="swapRand_N%d_f%s" % (N, "".join(map(str, fz)) or "-"), kind="swapRand", N=N, frozen=list(fz)))
    for N in ((4, 5) if tier == "quick" else (4, 5, 6, 7)):
        for fz in ([], [0], [N - 1]):
            out.append(dict(name="block_N%d_f%s" % (N, "".join(map(str, fz)) or "-"), kind="block", N=N, frozen=fz))
    return out


def letter_counts_equal(I, child_chars, vs):
    claims = []
    for a in AA:
        cin = count(v == IDX[a] for v in vs)
        cout = count(zbool(I.truth(I.binop(ast.Eq(), ch, a))) for ch in child_chars)
        claims.append(cin == cout)
    return z3.And(*claims)


def run_item(item):
    from localcider.sequenceParameters import SequenceParameters
    from localcider.sequencePermutants import SequencePermutants
    from localcider.backend.sequence import Sequence
    res = new_result()
    kind, N, frozen = item["kind"], item["N"], item["frozen"]
    I = interp(force_interp={"full_shuffle", "swapRes", "swapRandChargeRes", "permute_block_swap", "permute_cluster_charges", "get_shuffled_sequence", "get_permutant",
                             "SequencePermutants"})
    I.loop_bound = 1 if kind in ("block", "cluster") else 2000
    I.loop_cut = kind in ("block", "cluster")
    if kind in ("block", "cluster"):
        # the retry loops compare delta values only to decide whether to try again; every iteration starts from the parent
        # again, so the returned child is the product of the final iteration alone.  delta is therefore an arbitrary real
        # (fresh per call: the loop may stop after any iteration) and one iteration is explored.
        import itertools as _it
        _c = _it.count()
        I.stubs[Sequence.delta] = lambda I_, self: Sym(z3.Real("delta_call%d" % next(_c)), "real")
    vs, s = sym_sequence(I, N)
    rngs = install_rng(I)
    dcache = z3.Real("parent_dmax")
    cached = z3.Bool("parent_cache_filled")
    I.solver.add(dcache >= 0)
    i1, i2 = z3.Int("idx1"), z3.Int("idx2")
    I.solver.add(i1 >= 0, i1 < N, i2 >= 0, i2 < N)
    holder = {}

    def cex(m):
        d = dict(kind=kind, seq=seq_of_model(m, vs), frozen=frozen, cache_filled=bool(z3.is_true(m.eval(cached, model_completion=True))))
        if kind == "swapRes":
            d["i1"], d["i2"] = m.eval(i1, model_completion=True).as_long(), m.eval(i2, model_completion=True).as_long()
        return d

    def parent():
        so = I.call(Sequence, [s], {})
        so.dmax = I.merge(cached, Sym(dcache, "real"), -1)
        holder["parent"] = so
        holder["pre"] = dict(seq=so.seq, cp=SymArray(list(so.chargePattern.items)) if isinstance(so.chargePattern, SymArray) else so.chargePattern, dmax=so.dmax, ph=list(so.phosphosites))
        return so

    def thunk():
        if kind == "get_shuffled":
            sp = I.call(SequenceParameters, [s], {})
            sp.SeqObj.dmax = I.merge(cached, Sym(dcache, "real"), -1)
            so = sp.SeqObj
            holder["parent"] = so
            holder["pre"] = dict(seq=so.seq, cp=SymArray(list(so.chargePattern.items)), dmax=so.dmax, ph=list(so.phosphosites))
            child = I.call(sp.get_shuffled_sequence, [set(frozen)], {})
            return child.SeqObj
        if kind == "get_permutant":
            perm = I.call(SequencePermutants, [s], {})
            perm.SeqObj.dmax = I.merge(cached, Sym(dcache, "real"), -1)
            so = perm.SeqObj
            holder["parent"] = so
            holder["pre"] = dict(seq=so.seq, cp=SymArray(list(so.chargePattern.items)), dmax=so.dmax, ph=list(so.phosphosites))
            child = I.call(perm.get_permutant, [], {})
            return child.SeqObj
        so = parent()
        if kind == "full_shuffle":
            return I.call(so.full_shuffle, [set(frozen)], {})
        if kind == "swapRes":
            return I.call(so.swapRes, [Sym(i1, "int"), Sym(i2, "int")], {})
        if kind == "swapRand":
            return I.call(so.swapRandChargeRes, [set(frozen)], {})
        if kind == "block":
            return I.call(so.permute_block_swap, [set(frozen)], {})
        if kind == "cluster":
            return I.call(so.permute_cluster_charges, [set(frozen)], {})

    def on_raise(ob, exc, m):
        from localcider.backend.localciderExceptions import SequenceException
        res["obligations"] += 1
        if kind == "cluster" and isinstance(exc, SequenceException) and "Not enough charged" in str(exc):
            res["discharged"] += 1     # documented precondition of the cluster move
            return
        if kind == "block" and N < 4:
            res["discharged"] += 1
            return
        res["sat"] += 1
        c = cex(m); c["label"] = "%s raised %s: %s" % (kind, type(exc).__name__, str(exc)[:80]); c["raised"] = type(exc).__name__
        res["candidates"].append(c)

    def on_return(ob, child, m):
        nm = item["name"]
        so, pre = holder["parent"], holder["pre"]
        if not hasattr(child, "seq"):
            ob.prove(False, "%s returns a sequence object" % kind, lambda m_: cex(m))
            return
        cch = I.chars(child.seq) if isinstance(child.seq, (str, SymStr)) else None
        ob.prove(cch is not None and len(cch) == N, "child has the parent's length (%s)" % nm, lambda m_: cex(m))
        if cch is None or len(cch) != N:
            return
        ob.prove(letter_counts_equal(I, cch, vs), "child is a rearrangement of the parent's residues (%s)" % nm, cex)
        pch = I.chars(s)
        for f in frozen:
            t = I.truth(I.binop(ast.Eq(), cch[f], pch[f]))
            ob.prove(zbool(t) if not isinstance(t, bool) else t, "frozen position %d keeps its residue (%s)" % (f + 1, nm), cex)
        # child's own bookkeeping equals that of an object freshly built from its sequence
        ln = getattr(child, "len", None)
        ob.prove((not is_sym(ln)) and ln == N, "child.len == N (%s)" % nm, lambda m_: cex(m))
        cp = child.chargePattern
        cpi = cp.items if isinstance(cp, SymArray) else list(cp)
        okcp = len(cpi) == N
        claims = []
        if okcp:
            for i in range(N):
                want = I.merge(zbool(I.truth(I.contains(T.POS, cch[i]))), 1.0, I.merge(zbool(I.truth(I.contains(T.NEG, cch[i]))), -1.0, 0.0))
                claims.append(zbool(I.truth(I.binop(ast.Eq(), cpi[i], want))))
        ob.prove(z3.And(*claims) if (okcp and claims) else okcp, "child's charge pattern is that of its own sequence (%s)" % nm, cex)
        cd = child.dmax
        if is_sym(cd) or is_sym(pre["dmax"]):
            cz = zreal(cd) if is_sym(cd) else rv(float(cd))
            pz = zreal(pre["dmax"]) if is_sym(pre["dmax"]) else rv(float(pre["dmax"]))
            ob.prove(z3.Or(cz == pz, cz == -1), "carried delta-max is the parent's (same composition) or empty (%s)" % nm, cex)
        else:
            ob.prove(cd == pre["dmax"] or cd == -1, "carried delta-max is the parent's or empty (%s)" % nm, lambda m_: cex(m))
        # parent untouched
        if child is not so:
            t1 = state_eq(I, so.seq, pre["seq"]); t2 = state_eq(I, so.chargePattern, pre["cp"]); t4 = state_eq(I, list(so.phosphosites), pre["ph"])
            t3 = sym_equal(I, so.dmax, pre["dmax"], 0)
            ts = [zbool(t) for t in (t1, t2, t3, t4)]
            ob.prove(z3.And(*ts), "the object the move was called on is unchanged (%s)" % nm, cex)
        if len(res["samples"]) < 2:
            res["samples"].append(dict(item=nm, witness=cex(m), rng_draws=sum(len(r.vars) for r in rngs), obligation="rearrangement, frozen sites, bookkeeping, carried delta-max, parent unchanged; all sequences x all RNG outcomes"))
    explore(I, res, thunk, on_return, cex, label=item["name"], on_raise=on_raise)
    res["notes"].extend(sorted(I.notes))
    return finish(I, res)


# ---------------------------------------------------------------------------------------------------------------
def replay(cex):
    """native replay over many seeds of the real RNG (the solver's RNG outcome is not forced; a violation must show for some seed)"""
    from localcider.sequenceParameters import SequenceParameters
    from localcider.sequencePermutants import SequencePermutants
    from localcider.backend.sequence import Sequence
    import localcider.backend.sequence as SEQ
    import numpy as np
    import time as _time
    kind, seq, frozen = cex["kind"], cex["seq"], set(cex["frozen"])
    N = len(seq)
    real_time = _time.time
    problems = []
    try:
        for seedv in range(40):
            SEQ.time.time = lambda seedv=seedv: float(seedv)      # the moves seed their RNG from time.time()
            parent = Sequence(seq)
            if cex.get("cache_filled"):
                parent.deltaMax()
            pre = (parent.seq, np.array(parent.chargePattern, copy=True), parent.dmax, list(parent.phosphosites))
            try:
                if kind == "full_shuffle":
                    child = parent.full_shuffle(set(frozen))
                elif kind == "get_shuffled":
                    sp = SequenceParameters(seq)
                    if cex.get("cache_filled"):
                        sp.get_deltaMax()
                    parent = sp.SeqObj
                    pre = (parent.seq, np.array(parent.chargePattern, copy=True), parent.dmax, list(parent.phosphosites))
                    child = sp.get_shuffled_sequence(set(frozen)).SeqObj
                elif kind == "get_permutant":
                    pm = SequencePermutants(seq)
                    parent = pm.SeqObj
                    if cex.get("cache_filled"):
                        parent.deltaMax()
                    pre = (parent.seq, np.array(parent.chargePattern, copy=True), parent.dmax, list(parent.phosphosites))
                    child = pm.get_permutant().SeqObj
                elif kind == "swapRes":
                    child = parent.swapRes(cex["i1"], cex["i2"])
                elif kind == "swapRand":
                    child = parent.swapRandChargeRes(set(frozen))
                elif kind == "block":
                    if N < 4:
                        return False, "block move needs N >= 4"
                    child = parent.permute_block_swap(set(frozen))
                elif kind == "cluster":
                    if parent.countPos() < 2 and parent.countNeg() < 2:
                        return False, "documented precondition of the cluster move not met"
                    if N < 6:
                        return False, "not replayable: the real retry loop does not terminate for N < 6"
                    child = parent.permute_cluster_charges(set(frozen))
            except Exception as ex:
                from localcider.backend.localciderExceptions import SequenceException
                if kind == "block" and isinstance(ex, SequenceException):
                    continue
                problems.append("%s on %s (frozen %r) raised %s: %s" % (kind, seq, sorted(frozen), type(ex).__name__, str(ex)[:80]))
                break
            ref = Sequence(child.seq)
            if sorted(child.seq) != sorted(seq):
                problems.append("child %s is not a rearrangement of %s" % (child.seq, seq))
            if any(child.seq[f] != seq[f] for f in frozen):
                problems.append("%s(frozen=%r): %s -> %s moved a frozen residue" % (kind, sorted(frozen), seq, child.seq))
            if child.len != len(child.seq) or not np.array_equal(np.asarray(child.chargePattern, dtype=float), np.asarray(ref.chargePattern, dtype=float)):
                problems.append("child bookkeeping differs from a fresh object: len %r, chargePattern %r vs %r" % (child.len, list(child.chargePattern), list(ref.chargePattern)))
            if child.dmax != -1 and abs(child.dmax - Sequence(child.seq).deltaMax()) > TOL:
                problems.append("carried delta-max %r is not the delta-max of %s" % (child.dmax, child.seq))
            if child is not parent and (parent.seq != pre[0] or not np.array_equal(parent.chargePattern, pre[1]) or parent.dmax != pre[2] or parent.phosphosites != pre[3]):
                problems.append("parent object changed")
            if problems:
                break
    finally:
        SEQ.time.time = real_time
    return bool(problems), "; ".join(problems[:2]) if problems else "ok over 40 seeds"


def finding_key(cex):
    if cex.get("raised"):
        return "%s:raises:%s" % (cex["kind"], cex["raised"])
    if cex["kind"] in ("block", "cluster") and cex["frozen"]:
        return "%s:ignores-frozen" % cex["kind"]
    return "%s:%s:%s" % (cex["kind"], cex["seq"], cex["frozen"])


def within_known(entry, viol):
    """the recorded finding covers only 'a frozen residue moved' for the block / cluster moves; anything else is new"""
    d = viol.get("detail", "")
    return "moved a frozen residue" in d and ";" not in d


def fallback(item):
    return [dict(kind=item["kind"], seq=q, frozen=item["frozen"], cache_filled=False, i1=0, i2=item["N"] - 1) for q in fallback_seqs(item, 6)]
