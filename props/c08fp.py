"""C08 (b): composition-level encoding of phasePlotRegion in the solver's binary64 theory.
The source of Sequence.phasePlotRegion/FCR/NCPR/Fplus/Fminus is executed symbolically with (p, n, N) bit-vectors;
path feasibility and the final claims are decided by cvc5 (binary) on the SMT-LIB2 dump, cross-checked by z3 when it answers in time."""
import time
import z3
from vf.sx import *
from vf.ext import cvc5_check
from symx.interp import Interp, PyRaise

BW = 16


def run_item(item):
    from localcider.backend.sequence import Sequence
    NMAXV = item["nmax"]
    res = new_result()
    I = interp()
    I.lazy = True
    I.no_merge = True          # binary64 mode: one small query per syntactic path (decided by cvc5) instead of one large merged query
    I.side_raises = False
    p, n, N = z3.BitVec("p", BW), z3.BitVec("n", BW), z3.BitVec("N", BW)
    cons = [p >= 0, n >= 0, p <= N, n <= N, N >= item.get("nmin", 1), N <= NMAXV, p + n <= N]
    obj = Sequence.__new__(Sequence)
    obj.len = Sym(N, "bv")
    obj._symx_symbolic = True
    I.stubs[Sequence.countPos] = lambda I_, self: Sym(p, "bv")
    I.stubs[Sequence.countNeg] = lambda I_, self: Sym(n, "bv")
    I.stubs[Sequence.countNeut] = lambda I_, self: Sym(N - p - n, "bv")
    # rational classifier over 32-bit integers (no overflow: values <= 20*2000)
    P, Q, M = [z3.SignExt(16, x) for x in (p, n, N)]
    absd = z3.If(P >= Q, P - Q, Q - P)
    want = z3.If(4 * (P + Q) < M, 1, z3.If(20 * (P + Q) <= 7 * M, 2, z3.If(20 * absd < 7 * M, 3, z3.If(P > Q, 5, 4))))
    tmo = item.get("solver_timeout_s", 1200)
    reached = 0
    for pc, out in I.explore(lambda: I.call(obj.phasePlotRegion, [], {})):
        label = "%s path#%d" % (item["name"], res["obligations"])
        if out[0] == "gap":
            res["inconclusive"].append("ENCODING-GAP: " + out[1])
            continue
        if out[0] == "raise":
            # 'never fails': the raising path must be infeasible
            res["obligations"] += 1
            v, vals, dt = cvc5_check(cons + pc, ("p", "n", "N"), tmo)
            res["solver_s"] += dt
            if v == "unsat":
                res["discharged"] += 1
            elif v == "sat":
                res["sat"] += 1
                res["candidates"].append(dict(p=vals.get("p"), n=vals.get("n"), N=vals.get("N"), label="phasePlotRegion raises %s" % type(out[1]).__name__))
            else:
                res["unknown"] += 1
                res["inconclusive"].append("cvc5 %s on raise-path feasibility (%s)" % (v, label))
            continue
        val = to_sym(out[1])
        if val.kind != "int":
            res["inconclusive"].append("ENCODING-GAP: region of kind %s" % val.kind)
            continue
        res["obligations"] += 1
        v, vals, dt = cvc5_check(cons + pc + [val.z != want], ("p", "n", "N"), tmo)
        res["solver_s"] += dt
        if v == "unsat":
            res["discharged"] += 1
        elif v == "sat":
            res["sat"] += 1
            res["candidates"].append(dict(p=vals.get("p"), n=vals.get("n"), N=vals.get("N"), label="binary64 region differs from rational thresholds"))
        else:
            res["unknown"] += 1
            res["inconclusive"].append("cvc5 %s on region claim (%s)" % (v, label))
        # reachability witness + translator validation at a concrete point of this path (z3 evaluates the ground formula)
        from localcider.sequenceParameters import SequenceParameters
        for (cp, cn, cN) in item.get("probes", []):
            s2 = z3.Solver()
            s2.add(*cons); s2.add(*pc); s2.add(p == cp, n == cn, N == cN)
            if s2.check() == z3.sat:
                reached += 1
                got = concrete(s2.model(), out[1])
                seq = "K" * cp + "E" * cn + "G" * (cN - cp - cn)
                if got == SequenceParameters(seq).get_phasePlotRegion():
                    res["validated"] += 1
                else:
                    res["inconclusive"].append("TRANSLATOR-VALIDATION FAILED fp encoding at %r: %r" % ((cp, cn, cN), got))
                if len(res["samples"]) < 2:
                    res["samples"].append(dict(item=item["name"], witness=dict(p=cp, n=cn, N=cN), region=got, obligation="binary64 phasePlotRegion == exact rational classifier for all p,n,N in the item's range"))
    if reached:
        res["witnesses"] += 1
    else:
        res["inconclusive"].append("VACUOUS: no probe point reached a returning path in %s" % item["name"])
    return finish(I, res)
