"""C01 — kappa is delta/delta-max, lies in [0,1], and is -1 only when undefined."""
import random, json, os
import z3
from fractions import Fraction as F
from vf.sx import *
from vf.runner import load_known
from oracle import spec as S

ID = "C01"
TITLE = "Kappa is delta/delta-max, lies in [0,1], and is -1 only when undefined"
TOL = 1e-9
EPS = 1e-9       # guard band around the clamp thresholds 1.0 and 1.1 (real model of the float quotient)
ASSUMPTIONS = [
    "work items fix the composition (n+, n-, N) with the oracle's classes; arrangement and 20-letter spelling are symbolic",
    "delta is a real-arithmetic sum of exactly computed per-blob float terms; delta/deltaMax is a real quotient by the (concrete, entailed) deltaMax; "
    "at the clamp thresholds 1.0 and 1.1 either branch is accepted within a guard band of 1e-9; every counterexample is replayed with real floats",
    "known findings (kappa > 1 for specific compositions) are keyed by composition with the largest ratio any arrangement reaches (solver-maximised); "
    "a listed composition must not exceed its recorded ratio, an unlisted one must not exceed 1",
]
OUTSIDE = ["sequence lengths above the bound"]
NMAX = {"quick": 9, "thorough": 12}
ITEM_TIMEOUT = {"quick": 400, "thorough": 2400}


def bounds(tier):
    return "every composition (n+, n-, N) with N <= %d; all arrangements and spellings of each in one query per assertion" % NMAX[tier]


def items(tier, seed):
    return comp_items(1, NMAX[tier])


def known_for(a, b, N):
    for k in load_known():
        if k.get("property") == ID and k.get("status", "open") == "open" and k.get("key") == "comp:%d,%d,%d" % (a, b, N):
            return k
    return None


def run_item(item, survey=False):
    from localcider.sequenceParameters import SequenceParameters
    N, a, b = item["N"], item["npos"], item["nneg"]
    res = new_result()
    I = interp()
    vs, s = sym_sequence(I, N)
    I.solver.add(composition(vs, a, b))
    rng = seeded_rng(N * 1009 + a * 31 + b)
    known = known_for(a, b, N)
    prelude = std_prelude(N, a, b)
    run_prelude(prelude)

    def cex(m):
        return dict(seq=seq_of_model(m, vs), prelude=prelude)

    def thunk():
        k = I.call(I.call(SequenceParameters, [s], {}).get_kappa, [], {})
        d = I.call(I.call(SequenceParameters, [s], {}).get_delta, [], {})
        dm = I.call(I.call(SequenceParameters, [s], {}).get_deltaMax, [], {})
        return k, d, dm

    def on_return(ob, val, m):
        k, d, dm = val
        kz = zreal(k) if is_sym(k) else rv(float(k))
        dz = zreal(d) if is_sym(d) else rv(float(d))
        nm = item["name"]
        if is_sym(dm):
            res["inconclusive"].append("deltaMax is not entailed concrete for %s (composition-dependence is C03's subject)" % nm)
            return
        dmf = float(dm)
        ob.prove(dz >= 0, "delta >= 0 (%s)" % nm, cex)
        if dmf == 0:
            ob.prove(kz == -1, "kappa == -1 when deltaMax == 0 (%s)" % nm, cex)
            ob.prove(within(dz, 1e-12), "deltaMax == 0 => no arrangement has any variance (%s)" % nm, cex)
        else:
            r = dz / rv(dmf)
            inband = z3.And(r > 1 - rv(EPS), r < rv(1.1) + rv(EPS), kz == 1)
            outband = z3.And(z3.Or(r <= 1 + rv(EPS), r >= rv(1.1) - rv(EPS)), within(kz - r, TOL))
            ob.prove(z3.Or(inband, outband), "kappa == delta/deltaMax with the (1,1.1) clamp (%s)" % nm, cex)
            ob.prove(kz >= 0, "kappa >= 0 (%s)" % nm, cex)
            if known is None:
                ob.prove(kz <= 1, "kappa <= 1 for every arrangement (%s)" % nm, cex)
            else:
                ob.prove(kz <= rv(known["max_ratio"]) + rv(1e-9), "kappa does not exceed the recorded known ratio %r (%s)" % (known["max_ratio"], nm), cex)
                # re-derive the known finding (one witness)
                I.solver.push()
                I.solver.add(kz > 1)
                r2 = I.solver.check()
                if r2 == z3.sat:
                    c = cex(I.solver.model()); c["label"] = "known finding re-derived"
                    res["candidates"].append(c)
                else:
                    res["notes"].append("known finding %s no longer reproduces (%s): remove it from known_findings.json" % (known["key"], r2))
                I.solver.pop()
        if not res["samples"]:
            res["samples"].append(dict(item=nm, witness=seq_of_model(m, vs), deltaMax=dmf, obligation="structure of kappa, kappa in {-1} u [0,1], -1 iff deltaMax==0; all arrangements/spellings"))
        validate(I, res, [k, d, dm], lambda q: [SequenceParameters(q).get_kappa(), SequenceParameters(q).get_delta(), SequenceParameters(q).get_deltaMax()],
                 vs, [seq_of_model(m, vs)] + comp_samples(rng, N, a, b, 1), label="kappa/delta/deltaMax", tol=1e-9)
        if survey and dmf != 0:
            # maximise kappa over the composition: iterate sat -> native value -> tighten
            best = None
            bestseq = None
            I.solver.push()
            I.solver.add(kz > 1)
            while I.solver.check() == z3.sat:
                q = seq_of_model(I.solver.model(), vs)
                kv = SequenceParameters(q).get_kappa()
                if best is None or kv > best:
                    best, bestseq = kv, q
                I.solver.add(kz > rv(max(kv, 1.0)) + rv(1e-9))
            I.solver.pop()
            res["survey"] = dict(key="comp:%d,%d,%d" % (a, b, N), max_ratio=best, witness=bestseq)
    explore(I, res, thunk, on_return, cex, label=item["name"])
    return finish(I, res)


def replay(cex):
    from localcider.sequenceParameters import SequenceParameters
    run_prelude(cex.get("prelude"))
    seq = cex["seq"]
    try:
        k = SequenceParameters(seq).get_kappa()
        d = SequenceParameters(seq).get_delta()
        dm = SequenceParameters(seq).get_deltaMax()
    except Exception as ex:
        return True, "kappa/delta/deltaMax on %s raised %s: %s" % (seq, type(ex).__name__, ex)
    dspec = float(S.delta_exact(seq))
    if dm == 0:
        bad = k != -1 or dspec > 1e-12
        return bad, "seq=%s deltaMax=0 kappa=%r delta=%r" % (seq, k, d)
    r = d / dm
    struct_ok = (k == 1.0 and 1 - EPS < r < 1.1 + EPS) or abs(k - r) <= TOL
    bad = (not struct_ok) or k < 0 or k > 1 or k == -1
    return bad, "seq=%s kappa=%r delta=%r deltaMax=%r ratio=%r" % (seq, k, d, dm, r)


def finding_key(cex):
    seq = cex["seq"]
    return "comp:%d,%d,%d" % (sum(1 for c in seq if c in T.POS), sum(1 for c in seq if c in T.NEG), len(seq))


def within_known(entry, viol):
    """a violation is covered by a known finding only if it is the same kind (kappa > 1, structure intact) and not larger than recorded"""
    from localcider.sequenceParameters import SequenceParameters
    seq = viol["cex"]["seq"]
    k = SequenceParameters(seq).get_kappa()
    d = SequenceParameters(seq).get_delta()
    dm = SequenceParameters(seq).get_deltaMax()
    if dm == 0:
        return False
    r = d / dm
    struct_ok = (k == 1.0 and 1 - EPS < r < 1.1 + EPS) or abs(k - r) <= TOL
    return struct_ok and 1 < k <= entry["max_ratio"] + 1e-9


def fallback(item):
    return [dict(seq=q, prelude=std_prelude(item["N"], item["npos"], item["nneg"])) for q in fallback_seqs(item)]
