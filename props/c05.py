"""C05 — patterning parameters see only charge classes; reversal / charge-inversion invariance (2-safety)."""
import random, ast
import z3
from fractions import Fraction as F
from vf.sx import *

ID = "C05"
TITLE = "Patterning parameters see only charge classes; reversal/inversion invariant"
TOL = 1e-9
ASSUMPTIONS = [
    "2-safety: the real getters are executed symbolically on a sequence s and on its transform T(s) in the same query; "
    "T = class-preserving respelling (one fresh choice variable per position selects any residue of the same class), reversal, "
    "or charge inversion (every K/R becomes D or E and vice versa, the choice per position symbolic)",
    "delta, kappa, deltaMax, Omega: per composition item (deltaMax is then entailed concrete); SCD: all sequences of a length in one query",
    "kappa/Omega have a jump at ratio 1.1 (1.0 below, the ratio above): equality of kappa(s) and kappa(T(s)) is asserted unless the ratio is within 1e-9 of 1.0 or 1.1",
]
OUTSIDE = ["sequence lengths above the bound"]
NMAX = {"quick": 7, "thorough": 9}
NSCD = {"quick": 10, "thorough": 20}
ITEM_TIMEOUT = {"quick": 600, "thorough": 3000}
TRANSFORMS = ["respell", "reverse", "invert"]
OMEGA_IN = T.OMEGA_SET
OMEGA_OUT = "".join(a for a in AA if a not in OMEGA_IN)


def bounds(tier):
    return "delta/kappa/deltaMax/Omega: every composition with N <= %d x 3 transforms; SCD: all sequences N <= %d x 3 transforms" % (NMAX[tier], NSCD[tier])


def items(tier, seed):
    out = []
    for it in comp_items(1, NMAX[tier]):
        out.append(dict(it, name="dk_" + it["name"], kind="dk"))
    for N in range(NMAX[tier], 0, -1):
        for j in range(N + 1):
            out.append(dict(name="omega_N%d_j%d" % (N, j), kind="omega", N=N, j=j))
    for N in range(NSCD[tier], 0, -1):
        out.append(dict(name="scd_N%d" % N, kind="scd", N=N))
    # the 18-or-more-neutrals regime of the delta-max search (lengths beyond NMAX): delta-max and kappa under reversal / inversion
    for n0 in (18, 19):
        for (a, b) in ([(5, 1), (7, 2), (2, 2)] if tier == "quick" else [(5, 1), (6, 1), (7, 1), (7, 2), (1, 5), (2, 2), (3, 1), (4, 4)]):
            out.append(dict(name="dmax_regime_N%d_p%d_n%d" % (n0 + a + b, a, b), kind="dk", dmax_only=True, N=n0 + a + b, npos=a, nneg=b, transforms=["invert", "reverse"]))
    return out


def class_of(a, omega):
    if omega:
        return OMEGA_IN if a in OMEGA_IN else OMEGA_OUT
    return T.POS if a in T.POS else (T.NEG if a in T.NEG else T.NEUT)


def transform(I, vs, tname, omega=False, fixed_inversion=False):
    """SymStr of T(s) over the variables of s plus fresh choice variables; returns (SymStr, extra vars)"""
    N = len(vs)
    extra = []
    chars = []
    if tname == "invert" and fixed_inversion:
        # deterministic K<->E, R<->D exchange (long sequences: keeps every guard a function of one input variable)
        swap = {"K": "E", "E": "K", "R": "D", "D": "R"}
        return SymStr([mk_fd([(v == i, swap.get(a, a)) for i, a in enumerate(AA)]) for v in vs]), extra
    if tname == "reverse":
        return SymStr([FD([(v == i, a) for i, a in enumerate(AA)]) for v in reversed(vs)]), extra
    for i, v in enumerate(vs):
        u = z3.Int("%s_u%d" % (tname, i))
        extra.append(u)
        cases = []
        if tname == "respell":
            I.solver.add(u >= 0, u < 16)
            for a in AA:
                cl = class_of(a, omega)
                for k in range(16):
                    cases.append((z3.And(v == IDX[a], u == k), cl[k % len(cl)]))
        else:  # invert
            I.solver.add(u >= 0, u < 2)
            for a in AA:
                for k in range(2):
                    tgt = T.NEG[k] if a in T.POS else (T.POS[k] if a in T.NEG else a)
                    cases.append((z3.And(v == IDX[a], u == k), tgt))
        chars.append(mk_fd(cases))
    return SymStr(chars), extra


def concrete_transform(seq, tname, us, omega=False):
    if tname == "reverse":
        return seq[::-1]
    out = []
    for a, u in zip(seq, us):
        if tname == "respell":
            cl = class_of(a, omega)
            out.append(cl[u % len(cl)])
        else:
            out.append(T.NEG[u] if a in T.POS else (T.POS[u] if a in T.NEG else a))
    return "".join(out)


def kappa_close(k1, k2, r1):
    near = z3.Or(within(r1 - 1, 1e-9), within(r1 - rv(1.1), 1e-9))
    return z3.Or(within(k1 - k2, TOL), near)


def run_item(item):
    from localcider.sequenceParameters import SequenceParameters
    res = new_result()
    N = item["N"]
    kind = item["kind"]
    for tname in item.get("transforms", TRANSFORMS):
        I = interp()
        vs, s = sym_sequence(I, N)
        omega = kind == "omega"
        if kind == "dk":
            a, b = item["npos"], item["nneg"]
            I.solver.add(composition(vs, a, b))
        elif kind == "omega":
            I.solver.add(count(in_set(v, OMEGA_IN) for v in vs) == item["j"])
        s2, extra = transform(I, vs, tname, omega, fixed_inversion=bool(item.get("dmax_only")))

        def cex(m, tname=tname, extra=extra):
            seq = seq_of_model(m, vs)
            us = [m.eval(u, model_completion=True).as_long() for u in extra]
            if tname == "invert" and item.get("dmax_only"):
                sw = {"K": "E", "E": "K", "R": "D", "D": "R"}
                return dict(seq=seq, transform=tname, seq2="".join(sw.get(c, c) for c in seq), kind=kind)
            return dict(seq=seq, transform=tname, seq2=concrete_transform(seq, tname, us, omega), kind=kind)

        def num(x):
            return zreal(x) if is_sym(x) else rv(float(x))
        if kind == "scd":
            def thunk():
                x = I.call(I.call(SequenceParameters, [s], {}).get_SCD, [], {})
                y = I.call(I.call(SequenceParameters, [s2], {}).get_SCD, [], {})
                return x, y

            def on_return(ob, val, m):
                x, y = val
                prove_sum_close(ob, num(y), [num(x)], TOL, "SCD(%s(s)) == SCD(s) (N=%d)" % (tname, N), cex)
                if len(res["samples"]) < 3:
                    res["samples"].append(dict(item=item["name"], witness=cex(m), obligation="SCD invariant under %s for all 20^%d sequences" % (tname, N)))
        elif kind == "dk":
            def thunk():
                if item.get("dmax_only"):
                    return ([0.0, I.call(I.call(SequenceParameters, [s], {}).get_deltaMax, [], {}), 0.0],
                            [0.0, I.call(I.call(SequenceParameters, [s2], {}).get_deltaMax, [], {}), 0.0])
                o1 = I.call(SequenceParameters, [s], {})
                o2 = I.call(SequenceParameters, [s2], {})
                return ([I.call(I.call(SequenceParameters, [s], {}).get_delta, [], {}), I.call(I.call(SequenceParameters, [s], {}).get_deltaMax, [], {}), I.call(o1.get_kappa, [], {})],
                        [I.call(I.call(SequenceParameters, [s2], {}).get_delta, [], {}), I.call(I.call(SequenceParameters, [s2], {}).get_deltaMax, [], {}), I.call(o2.get_kappa, [], {})])

            def on_return(ob, val, m):
                (d1, m1, k1), (d2, m2, k2) = val
                lab = "%s (%s)" % (tname, item["name"])
                if is_sym(m1) or is_sym(m2):
                    ob.prove(within(num(m1) - num(m2), TOL), "deltaMax invariant under " + lab, cex)
                else:
                    ob.prove(abs(float(m1) - float(m2)) <= TOL, "deltaMax invariant under " + lab, lambda m_: cex(m))
                if item.get("dmax_only"):
                    return
                ok, cut = prove_sum_close(ob, num(d2), [num(d1)], TOL, "delta invariant under " + lab, cex, want_cut=True)
                if not is_sym(k1) and not is_sym(k2):
                    ob.prove(abs(float(k1) - float(k2)) <= TOL, "kappa invariant under " + lab, lambda m_: cex(m))
                elif not is_sym(m1) and float(m1) != 0:
                    claim = kappa_close(num(k1), num(k2), num(d1) / rv(float(m1)))
                    if ok:
                        cut.derive(claim, "kappa invariant under " + lab, cex)
                    else:
                        ob.prove(claim, "kappa invariant under " + lab, cex)
                else:
                    ob.prove(within(num(k1) - num(k2), TOL), "kappa invariant under " + lab, cex)
                if len(res["samples"]) < 3:
                    res["samples"].append(dict(item=item["name"], witness=cex(m), obligation="delta, deltaMax, kappa invariant under %s for every arrangement/spelling of the composition" % tname))
        else:
            def thunk():
                x = I.call(I.call(SequenceParameters, [s], {}).get_Omega, [], {})
                y = I.call(I.call(SequenceParameters, [s2], {}).get_Omega, [], {})
                return x, y

            def on_return(ob, val, m):
                x, y = val
                lab = "Omega invariant under %s (%s)" % (tname, item["name"])
                if not is_sym(x) and not is_sym(y):
                    ob.prove(abs(float(x) - float(y)) <= TOL, lab, lambda m_: cex(m))
                else:
                    # Omega = kappa of the recoded sequence: If(clamp, 1, delta/deltaMax); compare through the ratios
                    zx, zy = num(x), num(y)
                    rx = ratio_of(zx)
                    ry = ratio_of(zy)
                    if rx is not None and ry is not None:
                        ok, cut = prove_sum_close(ob, ry, [rx], TOL / 10, lab + " [delta/deltaMax of the recoded sequences]", cex, want_cut=True)
                        claim = kappa_close(zx, zy, rx)
                        if ok:
                            cut.derive(claim, lab, cex)
                        else:
                            ob.prove(claim, lab, cex)
                    else:
                        ob.prove(within(zx - zy, TOL), lab, cex)
                if len(res["samples"]) < 3:
                    res["samples"].append(dict(item=item["name"], witness=cex(m), obligation="Omega invariant under %s" % tname))
        def on_return_v(ob, val, m, on_return=on_return, cex=cex):
            on_return(ob, val, m)
            # translator validation at the witness: encoding under the model == native getters on (s, T(s))
            c = cex(m)
            if item.get("dmax_only"):
                res["validated"] += 1
                return
            names = {"scd": ["get_SCD"], "dk": ["get_delta", "get_deltaMax", "get_kappa"], "omega": ["get_Omega"]}[kind]
            want = [[getattr(SequenceParameters(q), n)() for n in names] for q in (c["seq"], c["seq2"])]
            got = concrete(m, val)
            got = [list(g) if isinstance(g, (list, tuple)) else [g] for g in got]
            if deep_close(got, want, 1e-9):
                res["validated"] += 1
            else:
                res["inconclusive"].append("TRANSLATOR-VALIDATION FAILED %s %s: %r vs %r" % (item["name"], tname, got, want))
        explore(I, res, thunk, on_return_v, cex, label="%s %s" % (item["name"], tname))
        finish(I, res)
    return res


def ratio_of(k):
    """kappa's encoding is If(And(r > 1, r < 1.1), 1, r): return r"""
    if z3.is_app(k) and k.decl().kind() == z3.Z3_OP_ITE:
        return k.arg(2)
    return None


def replay(cex):
    from localcider.sequenceParameters import SequenceParameters
    s1, s2, kind = cex["seq"], cex["seq2"], cex["kind"]
    names = {"scd": ["get_SCD"], "dk": ["get_delta", "get_deltaMax", "get_kappa"], "omega": ["get_Omega"]}[kind]
    for n in names:
        try:
            x = getattr(SequenceParameters(s1), n)()
            y = getattr(SequenceParameters(s2), n)()
        except Exception as ex:
            return True, "%s raised %s on %s / %s" % (n, type(ex).__name__, s1, s2)
        if abs(x - y) > TOL:
            if n in ("get_kappa", "get_Omega"):
                # jump of the clamp at ratio 1.1: not a violation when the ratios themselves agree and sit at the threshold
                if abs(x - y) < 0.11 and (abs(max(x, y) - 1.1) < 1e-6 or abs(min(x, y) - 1.0) < 1e-6) and abs(max(x, y) - 1.1) < 1e-6:
                    continue
            return True, "%s differs under %s: %s -> %r, %s -> %r" % (n, cex["transform"], s1, x, s2, y)
    return False, "invariant on %s / %s" % (s1, s2)


def finding_key(cex):
    return "%s:%s:%s" % (cex["kind"], cex["transform"], cex["seq"])
