"""C02 — get_delta() equals the Das-Pappu blob-averaged charge-asymmetry variance."""
import random
import z3
from vf.sx import *
from oracle import spec as S

ID = "C02"
TITLE = "Delta equals the Das-Pappu blob-averaged charge-asymmetry variance"
TOL = 1e-9
ASSUMPTIONS = [
    "floats: per-blob sigma values and squared deviations are computed by the real float operations case by case (FD); "
    "the accumulation over blobs is modelled in exact rational arithmetic of those doubles and compared with tolerance 1e-9",
    "status_message/warning_message print nothing (HUSH_ALL) and are executed natively",
    "work items fix the composition (n+, n-) with the oracle's classes (K,R / D,E); inside one item all 20-letter sequences of that "
    "composition and length are covered by one query per path",
    "each item first analyses (natively) a fixed prelude of other sequences -- same charge counts at other lengths, and two unrelated ones -- so that "
    "state shared between objects is in a used state when the symbolic run starts; the prelude is part of every replay file",
]
OUTSIDE = ["sequence lengths above the bound", "rounding of the final <= 2N floating-point additions (bounded by tolerance)"]
ITEM_TIMEOUT = {"quick": 300, "thorough": 900}


def bounds(tier):
    return "all sequences over the 20 letters with 1 <= N <= %d, split by composition (n+, n-)" % (NMAX[tier],)


NMAX = {"quick": 8, "thorough": 10}


def items(tier, seed):
    out = []
    for N in range(1, NMAX[tier] + 1):
        for a in range(N + 1):
            for b in range(N + 1 - a):
                out.append(dict(name="N%d_p%d_n%d" % (N, a, b), N=N, npos=a, nneg=b))
    # longest first for better packing
    out.sort(key=lambda i: -i["N"])
    return out


def run_item(item):
    from localcider.sequenceParameters import SequenceParameters
    N, a, b = item["N"], item["npos"], item["nneg"]
    res = new_result()
    I = interp()
    vs, s = sym_sequence(I, N)
    I.solver.add(composition(vs, a, b))
    ob = Obl(I, res)
    pos = [is_pos(v) for v in vs]
    neg = [is_neg(v) for v in vs]
    spec, _ = S.delta_z3_fixed_comp(pos, neg, a, b)
    rng = seeded_rng(N * 1009 + a * 31 + b)
    # history prelude: other objects with the same charge counts but other lengths (and unrelated ones) are analysed natively
    # first, so that module-level state shared between objects (caches keyed too coarsely, mutated tables) is in a used state
    prelude = std_prelude(N, a, b)
    run_prelude(prelude)

    HIST = [("get_linear_NCPR", (2,)), ("get_linear_FCR", (2,)), ("get_linear_sigma", (2,)), ("get_linear_hydropathy", (2,)), ("get_countNeg", ()), ("get_phasePlotRegion", ())] if N >= 2 else []

    def thunk():
        sp = I.call(SequenceParameters, [s], {})
        first = I.call(sp.get_delta, [], {})
        # the same object after other read-only queries (they must not disturb the stored charge pattern)
        for name, args in HIST:
            I.call(getattr(sp, name), list(args), {})
        again = I.call(sp.get_delta, [], {})
        return first, again

    def cex(m):
        return dict(seq=seq_of_model(m, vs), prelude=prelude, history=[[n_, list(a_)] for n_, a_ in HIST])
    for pc, out in I.explore(thunk):
        if out[0] == "gap":
            res["inconclusive"].append("ENCODING-GAP: " + out[1])
            continue
        if out[0] == "raise":
            res["obligations"] += 1
            res["sat"] += 1
            m = ob.witness(label="raising path")
            if m is not None:
                c = cex(m); c["label"] = "get_delta raised %s" % type(out[1]).__name__
                res["candidates"].append(c)
            continue
        m = ob.witness(label=item["name"])
        if m is None:
            continue
        val, again = out[1]
        d = zreal(val)
        ob.prove(within(d - spec, TOL), "delta == Das-Pappu definition", cex)
        e_ = sym_equal(I, again, val, TOL)
        ob.prove(zbool(e_) if e_ is not None else False, "delta unchanged after other read-only queries on the same object", cex)
        if len(res["samples"]) < 2:
            res["samples"].append(dict(item=item["name"], witness=seq_of_model(m, vs), obligation="|delta_impl - delta_spec| <= 1e-9 for all %d-mers with (n+,n-)=(%d,%d)" % (N, a, b)))
        # translator validation on the witness and a few random members of the composition
        seqs = [seq_of_model(m, vs)] + comp_samples(rng, N, a, b, 2)
        validate(I, res, val, lambda q: SequenceParameters(q).get_delta(), vs, seqs, label="get_delta")
    return finish(I, res)


def comp_samples(rng, N, a, b, k):
    out = []
    for _ in range(k):
        q = [rng.choice(T.POS) for _ in range(a)] + [rng.choice(T.NEG) for _ in range(b)] + [rng.choice(T.NEUT) for _ in range(N - a - b)]
        rng.shuffle(q)
        out.append("".join(q))
    return out


def replay(cex):
    from localcider.sequenceParameters import SequenceParameters
    run_prelude(cex.get("prelude", []))
    seq = cex["seq"]
    want = S.delta_exact(seq)
    try:
        sp = SequenceParameters(seq)
        got = sp.get_delta()
        for name, args in cex.get("history", []):
            getattr(sp, name)(*args)
        again = sp.get_delta()
    except Exception as ex:
        return True, "get_delta(%s) raised %s: %s" % (seq, type(ex).__name__, ex)
    if abs(float(again) - float(want)) > TOL:
        return True, "seq=%s get_delta after %r on the same object = %r, definition %r" % (seq, cex.get("history"), again, float(want))
    bad = abs(float(got) - float(want)) > TOL
    return bad, "seq=%s get_delta=%r definition=%r" % (seq, got, float(want))


def finding_key(cex):
    return "seq:" + cex["seq"]


def fallback(item):
    hist = [["get_linear_NCPR", [2]], ["get_linear_FCR", [2]], ["get_linear_sigma", [2]], ["get_linear_hydropathy", [2]]] if item["N"] >= 2 else []
    return [dict(seq=q, prelude=std_prelude(item["N"], item["npos"], item["nneg"]), history=hist) for q in fallback_seqs(item)]
