"""C12 — reduced alphabets implement the documented residue partitions."""
import random
import z3
from vf.sx import *

ID = "C12"
TITLE = "Reduced alphabets implement the documented residue partitions"
ASSUMPTIONS = [
    "the homomorphism laws (length, concatenation, idempotence) are obtained from the stronger per-position claim "
    "out[i] == representative(group(in[i])) proved for every position of symbolic sequences, plus representative in its own group",
    "user alphabets: dictionaries over the 20 keys with symbolic presence and symbolic values from the 20 letters and the non-letters "
    "'a', 'X', 'B', 'AA', '', 1; two keys beyond the 20 letters ('X', 'B') may be present with any of those values; the empty dictionary means 'no user alphabet' (API default) and is not asserted to be rejected",
    "integer alphabet sizes only (0..25); non-integer spellings are not asserted",
    "every reduction is requested on an object on which other reductions (a user alphabet, other sizes) were requested first",
]
OUTSIDE = ["sequence lengths above the bound", "non-integer alphabetSize arguments", "user dictionaries with extra keys other than 'X' and 'B'"]
NMAX = {"quick": 5, "thorough": 12}
ITEM_TIMEOUT = {"quick": 400, "thorough": 1500}
BADVALS = ["a", "X", "B", "AA", "", 1]
EXTRA_KEYS = ["X", "B"]


def bounds(tier):
    return "12 predefined sizes x all sequences with 1 <= N <= %d; integer sizes 0..25 on symbolic 2-mers; user dictionaries with symbolic presence/values on symbolic sequences N <= %d" % (NMAX[tier], 3 if tier == "quick" else 5)


def items(tier, seed):
    out = []
    for size in T.ALPHABET_SIZES:
        for N in range(1, NMAX[tier] + 1):
            out.append(dict(name="size%d_N%d" % (size, N), kind="pre", size=size, N=N))
    for size in range(0, 26):
        if size not in T.ALPHABET_SIZES:
            out.append(dict(name="badsize%d" % size, kind="bad", size=size, N=2))
    for N in range(1, (3 if tier == "quick" else 5) + 1):
        out.append(dict(name="userdict_N%d" % N, kind="user", N=N))
    return out


def expected_alphabet_ok(size, alphabet):
    """the alphabet returned lists exactly one representative per documented group, each a member of its own group"""
    groups = T.ALPHABETS[size]
    if len(alphabet) != size or len(set(alphabet)) != size:
        return False
    for g in groups:
        if sum(1 for r in alphabet if r in g) != 1:
            return False
    return True


def rep_table(size, alphabet):
    tab = {}
    for g in T.ALPHABETS[size]:
        rep = [r for r in alphabet if r in g]
        for a in g:
            tab[a] = rep[0] if len(rep) == 1 else None
    return tab


def spec_char(v, tab):
    return FD([(v == IDX[a], tab[a]) for a in AA])


def run_item(item):
    from localcider.sequenceParameters import SequenceParameters
    res = new_result()
    I = interp()
    N = item["N"]
    vs, s = sym_sequence(I, N)
    kind = item["kind"]
    rng = seeded_rng(N * 7 + item.get("size", 0))

    def cex(m, extra=None):
        d = dict(seq=seq_of_model(m, vs), kind=kind, size=item.get("size"))
        if extra:
            d.update(extra(m))
        return d
    if kind in ("pre", "bad"):
        size = item["size"]

        SWAP = {a: a for a in AA}
        SWAP.update({"K": "E", "E": "K", "L": "A", "A": "L"})

        def thunk():
            sp = I.call(SequenceParameters, [s], {})
            # history on the same object: a user-alphabet reduction and another size were asked for first
            I.call(sp.get_reduced_alphabet_sequence, [], {"userAlphabet": dict(SWAP)})
            I.call(sp.get_reduced_alphabet_sequence, [2 if size != 2 else 3], {})
            return I.call(sp.get_reduced_alphabet_sequence, [size], {})

        def on_raise(ob, exc, m):
            res["obligations"] += 1
            from localcider.backend.localciderExceptions import SequenceComplexityException
            if kind == "bad" and isinstance(exc, Exception):
                res["discharged"] += 1     # rejected on this path (all paths are enumerated)
            else:
                res["sat"] += 1
                c = cex(m); c["label"] = "size %d raised %s" % (size, type(exc).__name__); res["candidates"].append(c)

        def on_return(ob, val, m):
            if kind == "bad":
                res["obligations"] += 1; res["sat"] += 1
                c = cex(m); c["label"] = "invalid size %d accepted" % size; res["candidates"].append(c)
                return
            ok_shape = isinstance(val, tuple) and len(val) == 2 and isinstance(val[1], list) and not I.deep_symbolic(val[1])
            ob.prove(bool(ok_shape) and expected_alphabet_ok(size, val[1]), "alphabet returned for size %d lists one representative per documented group" % size, lambda m_: cex(m))
            if not (ok_shape and expected_alphabet_ok(size, val[1])):
                return
            tab = rep_table(size, val[1])
            out = val[0]
            ochars = list(out) if isinstance(out, str) else out.uniform_chars()
            if ochars is None or len(ochars) != N:
                res["obligations"] += 1; res["sat"] += 1
                c = cex(m); c["label"] = "reduced sequence length differs"; res["candidates"].append(c)
                return
            for i in range(N):
                claim = I.truth(I.binop(__import__("ast").Eq(), ochars[i], spec_char(vs[i], tab)))
                ob.prove(claim, "size %d: out[%d] == representative(group(in[%d])) (N=%d)" % (size, i, i, N), cex)
            if not res["samples"]:
                res["samples"].append(dict(item=item["name"], witness=seq_of_model(m, vs), obligation="out[i]==rep(group(in[i])) for all i, all 20^%d sequences" % N))
            validate(I, res, val[0], lambda q: SequenceParameters(q).get_reduced_alphabet_sequence(size)[0], vs, [seq_of_model(m, vs)] + sample_seqs(rng, N, 2), label="reduce")
        explore(I, res, thunk, on_return, cex, label=item["name"], on_raise=on_raise)
        return finish(I, res)
    # ---- user alphabets
    pres = {a: z3.Bool("has_%s" % a) for a in AA}
    valv = {a: z3.Int("val_%s" % a) for a in AA}
    dom = list(AA) + BADVALS
    entries = {}
    for a in AA:
        I.solver.add(valv[a] >= 0, valv[a] < len(dom))
        entries[a] = (pres[a], FD([(valv[a] == k, dom[k]) for k in range(len(dom))]))
    # keys beyond the 20 letters may be present too (they must not make an invalid mapping acceptable)
    xpres = {a: z3.Bool("has_extra_%s" % a) for a in EXTRA_KEYS}
    xval = {a: z3.Int("val_extra_%s" % a) for a in EXTRA_KEYS}
    for a in EXTRA_KEYS:
        I.solver.add(xval[a] >= 0, xval[a] < len(dom))
        entries[a] = (xpres[a], FD([(xval[a] == k, dom[k]) for k in range(len(dom))]))
    ud = SymDict(entries)
    allpres = z3.And(*[pres[a] for a in AA])
    nonepres = z3.Not(z3.Or(*([pres[a] for a in AA] + [xpres[a] for a in EXTRA_KEYS])))
    allvalid = z3.And(*[valv[a] < 20 for a in AA])

    def dict_of(m):
        d = {}
        for a in AA:
            if z3.is_true(m.eval(pres[a], model_completion=True)):
                d[a] = dom[m.eval(valv[a], model_completion=True).as_long()]
        for a in EXTRA_KEYS:
            if z3.is_true(m.eval(xpres[a], model_completion=True)):
                d[a] = dom[m.eval(xval[a], model_completion=True).as_long()]
        return dict(userdict=d)

    def thunk():
        sp = I.call(SequenceParameters, [s], {})
        # history on the same object: predefined reductions were asked for first
        I.call(sp.get_reduced_alphabet_sequence, [20], {})
        I.call(sp.get_reduced_alphabet_sequence, [5], {})
        return I.call(sp.get_reduced_alphabet_sequence, [], {"userAlphabet": ud})

    def on_raise(ob, exc, m):
        # rejected: must not be a total valid dictionary, nor the empty one
        ob.prove(z3.Not(z3.Or(z3.And(allpres, allvalid), nonepres)), "rejected user alphabet is neither total-valid nor empty", lambda mm: cex(mm, dict_of))

    def on_return(ob, val, m):
        ob.prove(z3.Or(z3.And(allpres, allvalid), nonepres), "accepted user alphabet is total and valid (or empty = none)", lambda mm: cex(mm, dict_of))
        out = val[0]
        ochars = list(out) if isinstance(out, str) else out.uniform_chars()
        if ochars is None or len(ochars) != N:
            res["obligations"] += 1; res["sat"] += 1
            c = cex(m, dict_of); c["label"] = "length differs"; res["candidates"].append(c)
            return
        import ast as _ast
        for i in range(N):
            # expected image: dict[c_i] when the dictionary is used, c_i itself for the empty dictionary
            exp_user = None
            for a in reversed(AA):
                ev = I.prune(entries[a][1])
                exp_user = ev if exp_user is None else I.merge(vs[i] == IDX[a], ev, exp_user)
            exp_none = FD([(vs[i] == IDX[a], a) for a in AA])
            eq_user = I.truth(I.binop(_ast.Eq(), ochars[i], exp_user))
            eq_none = I.truth(I.binop(_ast.Eq(), ochars[i], exp_none))
            claim = z3.And(z3.Implies(allpres, zbool(eq_user)), z3.Implies(nonepres, zbool(eq_none)))
            ob.prove(claim, "user alphabet applied residue by residue: out[%d] == dict[in[%d]] (N=%d)" % (i, i, N), lambda mm: cex(mm, dict_of))
        if len(res["samples"]) < 2:
            c = cex(m, dict_of)
            res["samples"].append(dict(item=item["name"], witness=c, obligation="accepted <=> total & valid; out[i]==dict[in[i]]"))
    explore(I, res, thunk, on_return, cex, label=item["name"], on_raise=on_raise)
    return finish(I, res)


def replay(cex):
    from localcider.sequenceParameters import SequenceParameters
    seq = cex["seq"]
    sp = SequenceParameters(seq)
    swap = {a: a for a in AA}
    swap.update({"K": "E", "E": "K", "L": "A", "A": "L"})
    try:      # same-object history used by the symbolic items
        if cex["kind"] == "user":
            sp.get_reduced_alphabet_sequence(20); sp.get_reduced_alphabet_sequence(5)
        else:
            sp.get_reduced_alphabet_sequence(userAlphabet=swap); sp.get_reduced_alphabet_sequence(2 if cex.get("size") != 2 else 3)
    except Exception:
        pass
    if cex["kind"] == "user":
        d = cex["userdict"]
        total_valid = set(d) >= set(AA) and all(isinstance(d[a], str) and d[a] in AA for a in AA)
        try:
            out = sp.get_reduced_alphabet_sequence(userAlphabet=d)
        except Exception as ex:
            bad = total_valid or len(d) == 0
            return bad, "user alphabet %r rejected with %s (total&valid=%s)" % (d, type(ex).__name__, total_valid)
        if len(d) == 0:
            return out[0] != seq, "empty user alphabet -> %r" % (out[0],)
        if not total_valid:
            return True, "partial/invalid user alphabet %r accepted -> %r" % (d, out[0])
        want = "".join(d[c] for c in seq)
        return out[0] != want, "user alphabet applied: got %r want %r" % (out[0], want)
    size = cex["size"]
    try:
        out = sp.get_reduced_alphabet_sequence(size)
    except Exception as ex:
        return size in T.ALPHABET_SIZES, "size %d rejected with %s" % (size, type(ex).__name__)
    if size not in T.ALPHABET_SIZES:
        return True, "invalid size %d accepted -> %r" % (size, out)
    red, alphabet = out
    if not expected_alphabet_ok(size, alphabet):
        return True, "size %d alphabet %r does not list one representative per documented group" % (size, alphabet)
    tab = rep_table(size, alphabet)
    want = "".join(tab[c] for c in seq)
    return red != want, "size %d seq %s -> %r, documented partition gives %r" % (size, seq, red, want)


def finding_key(cex):
    return "%s:%s:%s" % (cex["kind"], cex.get("size"), cex["seq"])


def fallback(item):
    if item["kind"] == "user":
        swap = {a: a for a in AA}; swap.update({"K": "E", "E": "K"})
        rot = {a: AA[(i + 1) % 20] for i, a in enumerate(AA)}
        part = {a: ("L" if a in "LVIMCAGSTPFYW" else "E") for a in AA}
        return [dict(seq=q, kind="user", size=None, userdict=d) for d in (swap, rot, part) for q in fallback_seqs(item, 6)]
    return [dict(seq=q, kind=item["kind"], size=item.get("size")) for q in fallback_seqs(item)]
