"""C19 — plots place sequences at true coordinates in the regions that classify them."""
import random, ast
import z3
from fractions import Fraction as F
from vf.sx import *

ID = "C19"
TITLE = "Plots place sequences at true coordinates in the regions that classify them"
TOL = 1e-9
ASSUMPTIONS = [
    "matplotlib.pyplot (the `plt` global of localcider.backend.plotting) is replaced by a recording object: the check decides which pyplot calls are made with which arguments "
    "(scatter coordinates, annotations, polygons, limits, title, savefig arguments, returned object); what matplotlib renders for those calls is not modelled; matplotlib.rc is a no-op",
    "coordinates passed to the plots-module functions are symbolic reals in [0,1]; for the object methods they are the symbolic getters of a symbolic sequence; "
    "labels / titles are fixed distinctive strings, limits are symbolic reals, legendOn / getFig / format range over their concrete values",
    "region agreement: the polygons recorded from finalize_DasPappu (concrete vertices) are compared with the rational classifier of C08 for ALL real points (f+, f-) of the unit simplex: "
    "every point classified r lies in the 1e-9-inflated closed polygon drawn for r (linear real arithmetic; no bound on N)",
]
OUTSIDE = ["what matplotlib renders, files on disk, fonts", "the Uversky boundary line (no classifier to compare with)", "save_linearComposition (scipy spline)", "saveFormat forwarding of save_multiple_uverskyPlot2"]
NMAX = {"quick": 4, "thorough": 8}
ITEM_TIMEOUT = {"quick": 900, "thorough": 2400}


def bounds(tier):
    return "12 plots-module entry points + 4 object methods with symbolic coordinates / sequences (N <= %d), getFig and legend variants; 8 linear-profile entry points for N <= %d; region geometry for all real points" % (NMAX[tier], NMAX[tier])


class Dummy:
    _symx_call_native = True

    def __getattr__(self, name):
        if name.startswith("__"):
            raise AttributeError(name)
        f = lambda *a, **k: None
        f._symx_call_native = True
        return f


class PltRec:
    """recording stand-in for matplotlib.pyplot"""
    _symx_call_native = True
    _symx_symbolic = False

    def __init__(self):
        self.calls = []

    def __getattr__(self, name):
        if name.startswith("__"):
            raise AttributeError(name)

        def f(*a, **k):
            self.calls.append((name, a, k))
            if name in ("fill", "plot"):
                return (Dummy(),)
            if name == "bar":
                return [Dummy() for _ in range(len(a[0]))]
            return None
        f._symx_call_native = True
        return f

    def of(self, name):
        return [(a, k) for n, a, k in self.calls if n == name]


def items(tier, seed):
    out = [dict(name="geometry", kind="geometry", N=0)]
    for fn in ("show_single_phasePlot", "save_single_phasePlot", "show_multiple_phasePlot", "save_multiple_phasePlot", "show_single_uverskyPlot", "save_single_uverskyPlot",
               "show_multiple_uverskyPlot", "save_multiple_uverskyPlot"):
        out.append(dict(name="plots." + fn, kind="module", fn=fn, N=0))
    for fn in ("show_multiple_phasePlot2", "save_multiple_phasePlot2", "show_multiple_uverskyPlot2", "save_multiple_uverskyPlot2"):
        out.append(dict(name="plots." + fn, kind="module2", fn=fn, N=NMAX[tier]))
    out.append(dict(name="unlabelled_repeats", kind="repeats", N=2, fn="-"))
    for fn in ("show_phaseDiagramPlot", "save_phaseDiagramPlot", "show_uverskyPlot", "save_uverskyPlot"):
        for N in range(1, NMAX[tier] + 1):
            out.append(dict(name="SequenceParameters.%s_N%d" % (fn, N), kind="method", fn=fn, N=N))
    for fn in ("NCPR", "FCR", "Sigma", "Hydropathy"):
        for N in range(1, NMAX[tier] + 1):
            out.append(dict(name="linear%s_N%d" % (fn, N), kind="linear", fn=fn, N=N))
    return out


def install(I):
    import localcider.backend.plotting as PL
    import matplotlib
    rec = PltRec()
    PL.plt = rec
    I.stubs[matplotlib.rc] = lambda I_, *a, **k: None
    I.force_interp |= {f for f in dir(PL) if not f.startswith("__") and callable(getattr(PL, f)) and getattr(getattr(PL, f), "__module__", "") == PL.__name__}
    import localcider.plots as PM
    I.force_interp |= {f for f in dir(PM) if callable(getattr(PM, f)) and getattr(getattr(PM, f), "__module__", "") == PM.__name__}
    I.force_interp |= {"_plotting__get_bar_edge_width", "__get_bar_edge_width", "__build_linear_plot"}
    return rec


def eqz(I, a, b):
    e = sym_equal(I, a, b, TOL)
    return zbool(e) if e is not None else z3.BoolVal(False)


def run_item(item):
    import localcider.backend.plotting as PL
    real_plt = PL.plt
    try:
        return _run_item(item)
    finally:
        PL.plt = real_plt


def _run_item(item):
    from localcider.sequenceParameters import SequenceParameters
    import localcider.plots as PM
    import localcider.backend.plotting as PL
    res = new_result()
    I = interp()
    kind = item["kind"]
    if kind == "geometry":
        return run_geometry(item, res, I)
    if kind == "repeats":
        return run_repeats(item, res, I)
    N = item["N"]
    fn = item["fn"]
    TITLE_, LABEL_ = "T!tle-xyz", "lab"
    xl, yl = z3.Real("xLim"), z3.Real("yLim")
    I.solver.add(xl > 0, xl <= 2, yl > 0, yl <= 2)
    XL, YL = Sym(xl, "real"), Sym(yl, "real")
    uversky = "uversky" in fn.lower()
    variants = []
    if kind in ("module", "module2", "method"):
        for getFig in ((True, False) if fn.startswith("show") else (None,)):
            for legend in (True, False):
                for fmt in (("png", "pdf") if fn.startswith("save") else (None,)):
                    variants.append((getFig, legend, fmt))
    for (getFig, legend, fmt) in variants:
        rec = install(I)
        holder = {}
        if kind == "module":
            multi = "multiple" in fn
            npts = 2 if multi else 1
            cs = [(z3.Real("a%d" % i), z3.Real("b%d" % i)) for i in range(npts)]
            for a, b in cs:
                I.solver.add(a >= 0, a <= 1, b >= 0, b <= 1)
            A = [Sym(a, "real") for a, _ in cs]
            B = [Sym(b, "real") for _, b in cs]
            labels = [LABEL_ + str(i) for i in range(npts)]

            def thunk(getFig=getFig, legend=legend, fmt=fmt):
                del rec.calls[:]
                f = getattr(PM, fn)
                first = (A if multi else A[0], B if multi else B[0])
                lab = labels if multi else labels[0]
                if fn.startswith("show"):
                    return I.call(f, [first[0], first[1], lab, TITLE_, legend, XL, YL, 10, getFig], {})
                return I.call(f, [first[0], first[1], "out.file", lab, TITLE_, legend, XL, YL, 10, fmt], {})
            # plots-module convention: phase plots take (f+, f-); uversky plots take (hydropathy, mean net charge) and draw (charge, hydropathy)
            expect_xy = [((B[i], A[i]) if uversky else (A[i], B[i])) for i in range(npts)]

            def cex(m, getFig=getFig, legend=legend, fmt=fmt):
                def val(v):
                    x = m.eval(v, model_completion=True)
                    return float(x.as_fraction()) if z3.is_rational_value(x) else float(x.approx(12).as_fraction())
                return dict(kind=kind, fn=fn, coords=[[val(a), val(b)] for a, b in cs], getFig=getFig, legend=legend, fmt=fmt, xLim=val(xl), yLim=val(yl))
        else:
            nseq = 2 if kind == "module2" else 1
            seqs = [sym_sequence(I, N, prefix="c" if i == 0 else "d") for i in range(nseq)]
            labels = [LABEL_ + str(i) for i in range(nseq)]

            def thunk(getFig=getFig, legend=legend, fmt=fmt):
                del rec.calls[:]
                sps = [I.call(SequenceParameters, [s_], {}) for _, s_ in seqs]
                holder["sps"] = sps
                if kind == "module2":
                    f = getattr(PM, fn)
                    if fn.startswith("show"):
                        return I.call(f, [sps, labels, TITLE_, legend, XL, YL, 10, getFig], {})
                    return I.call(f, [sps, "out.file", labels, TITLE_, legend, XL, YL, 10, fmt], {})
                f = getattr(sps[0], fn)
                if fn.startswith("show"):
                    return I.call(f, [labels[0], TITLE_, legend, XL, YL, 10, getFig], {})
                return I.call(f, ["out.file", labels[0], TITLE_, legend, XL, YL, 10, fmt], {})
            expect_xy = None

            def cex(m, getFig=getFig, legend=legend, fmt=fmt):
                return dict(kind=kind, fn=fn, seqs=[seq_of_model(m, vs_) for vs_, _ in seqs], getFig=getFig, legend=legend, fmt=fmt,
                            xLim=float(m.eval(xl, model_completion=True).as_fraction()), yLim=float(m.eval(yl, model_completion=True).as_fraction()))

        def on_return(ob, ret, m, getFig=getFig, legend=legend, fmt=fmt, expect_xy=expect_xy, labels=labels):
            lab = "%s(getFig=%s, legendOn=%s, format=%s)" % (item["name"], getFig, legend, fmt)
            exy = expect_xy
            if exy is None:
                sps = holder["sps"]
                if uversky:
                    exy = [(I.call(sp.get_mean_net_charge, [], {}), I.call(sp.get_uversky_hydropathy, [], {})) for sp in sps]
                else:
                    exy = [(I.call(sp.get_fraction_positive, [], {}), I.call(sp.get_fraction_negative, [], {})) for sp in sps]
            sc = rec.of("scatter")
            ok = len(sc) == len(exy)
            ob.prove(ok, lab + ": one marker per sequence", lambda m_: cex(m))
            if ok:
                for (a, k), (ex, ey) in zip(sc, exy):
                    ob.prove(z3.And(eqz(I, a[0], ex), eqz(I, a[1], ey)), lab + ": marker drawn at the sequence's true coordinates", cex)
            tl = rec.of("title")
            ob.prove(len(tl) == 1 and tl[0][0][0] == TITLE_, lab + ": requested title", lambda m_: cex(m))
            xlm, ylm = rec.of("xlim"), rec.of("ylim")
            okl = len(xlm) == 1 and len(ylm) == 1 and len(xlm[0][0][0]) == 2 and len(ylm[0][0][0]) == 2
            ob.prove(okl, lab + ": axis limits set once", lambda m_: cex(m))
            if okl:
                ob.prove(z3.And(eqz(I, xlm[0][0][0][0], 0), eqz(I, xlm[0][0][0][1], XL), eqz(I, ylm[0][0][0][0], 0), eqz(I, ylm[0][0][0][1], YL)), lab + ": axis limits [0,xLim] / [0,yLim]", cex)
            an = rec.of("annotate")
            ob.prove([a[0] for a, k in an] == labels, lab + ": each sequence annotated with its label", lambda m_: cex(m))
            ob.prove((len(rec.of("legend")) == 1) == bool(legend), lab + ": legend drawn iff requested", lambda m_: cex(m))
            if fn.startswith("show"):
                if getFig:
                    ob.prove(ret is rec, lab + ": returns the figure (pyplot object)", lambda m_: cex(m))
                    ob.prove(len(rec.of("show")) == 0, lab + ": no show() when the figure is returned", lambda m_: cex(m))
                else:
                    ob.prove(len(rec.of("show")) == 1, lab + ": figure shown", lambda m_: cex(m))
            else:
                sv = rec.of("savefig")
                oks = len(sv) == 1 and sv[0][0][0] == "out.file" and (fn == "save_multiple_uverskyPlot2" or sv[0][1].get("format") == fmt)
                ob.prove(oks, lab + ": savefig(filename, format)", lambda m_: cex(m))
            if len(res["samples"]) < 2:
                res["samples"].append(dict(item=item["name"], witness=cex(m), recorded=[c[0] for c in rec.calls][:12], obligation=lab))
        explore(I, res, thunk, on_return, cex, label=item["name"])
    if kind == "linear":
        run_linear(item, res, I)
    res["notes"].extend(sorted(I.notes))
    return finish(I, res)


REPEAT_FUNCS = ["show_multiple_phasePlot", "show_multiple_uverskyPlot", "show_multiple_phasePlot2", "show_multiple_uverskyPlot2",
                "save_multiple_phasePlot", "save_multiple_uverskyPlot", "save_multiple_phasePlot2", "save_multiple_uverskyPlot2"]


def run_repeats(item, res, I):
    """consecutive unlabelled calls of the multi-sequence entry points with different numbers of sequences (shared default label lists)"""
    from localcider.sequenceParameters import SequenceParameters
    import localcider.plots as PM
    N = item["N"]
    for fn in REPEAT_FUNCS:
        rec = install(I)
        seqs = [sym_sequence(I, N, prefix=p_) for p_ in ("c", "d", "e")]
        cs = [(z3.Real("a%d" % i), z3.Real("b%d" % i)) for i in range(3)]
        for a, b in cs:
            I.solver.add(a >= 0, a <= 1, b >= 0, b <= 1)
        counts = [3, 2, 1]

        def cex(m, fn=fn):
            return dict(kind="repeats", fn=fn, counts=counts)

        def thunk(fn=fn):
            out = []
            f = getattr(PM, fn)
            for c_ in counts:
                del rec.calls[:]
                if fn.endswith("2"):
                    first = [[I.call(SequenceParameters, [s_], {}) for _, s_ in seqs[:c_]]]
                else:
                    first = [[Sym(a, "real") for a, _ in cs[:c_]], [Sym(b, "real") for _, b in cs[:c_]]]
                if fn.startswith("show"):
                    I.call(f, first, {"getFig": True})
                else:
                    I.call(f, first + ["out.file"], {})
                out.append(len(rec.of("scatter")))
            return out

        def on_return(ob, val, m, fn=fn):
            ob.prove(list(val) == counts, "%s: consecutive unlabelled calls with %r sequences each draw one marker per sequence" % (fn, counts), lambda m_: cex(m))
            if len(res["samples"]) < 2:
                res["samples"].append(dict(item=item["name"], fn=fn, obligation="unlabelled calls with 3, 2, 1 sequences in one process"))
        explore(I, res, thunk, on_return, cex, label="repeats " + fn)
    return finish(I, res)


def run_linear(item, res, I):
    from localcider.sequenceParameters import SequenceParameters
    N, fn = item["N"], item["fn"]
    vs, s = sym_sequence(I, N)
    getter = {"NCPR": "get_linear_NCPR", "FCR": "get_linear_FCR", "Sigma": "get_linear_sigma", "Hydropathy": "get_linear_hydropathy"}[fn]
    for w in range(1, N + 1):
        for mode in ("show", "save"):
            rec = install(I)
            holder = {}

            def cex(m, w=w, mode=mode):
                return dict(kind="linear", fn=fn, seq=seq_of_model(m, vs), w=w, mode=mode)

            def thunk(w=w, mode=mode):
                del rec.calls[:]
                sp = I.call(SequenceParameters, [s], {})
                holder["sp"] = sp
                if mode == "show":
                    return I.call(getattr(sp, "show_linear" + fn), [w, True], {})
                return I.call(getattr(sp, "save_linear" + fn), ["out.file", w, "png"], {})

            def on_return(ob, ret, m, w=w, mode=mode):
                lab = "%s_linear%s(w=%d, N=%d)" % (mode, fn, w, N)
                prof = I.call(getattr(holder["sp"], getter), [w], {})
                rows = prof[1] if isinstance(prof, tuple) and isinstance(prof[0], str) and prof[0] == "__vstack__" else None
                bars = rec.of("bar")
                ok = len(bars) == 1 and rows is not None and len(bars[0][0]) >= 2 and len(bars[0][0][0]) == N and len(bars[0][0][1]) == N
                ob.prove(ok, lab + ": one bar per residue", lambda m_: cex(m))
                if ok:
                    ob.prove(eqz(I, list(bars[0][0][0]), list(rows[0])), lab + ": bars at positions 1..N", cex)
                    ob.prove(eqz(I, list(bars[0][0][1]), list(rows[1])), lab + ": bar heights == %s(w) profile" % getter, cex)
                if mode == "show":
                    ob.prove(ret is rec, lab + ": returns the figure with getFig=True", lambda m_: cex(m))
                else:
                    sv = rec.of("savefig")
                    ob.prove(len(sv) == 1 and sv[0][0][0] == "out.file", lab + ": savefig(filename)", lambda m_: cex(m))
                if len(res["samples"]) < 2:
                    res["samples"].append(dict(item=item["name"], witness=cex(m), obligation=lab))
            explore(I, res, thunk, on_return, cex, label="%s w=%d %s" % (item["name"], w, mode))


def run_geometry(item, res, I):
    """polygons drawn by finalize_DasPappu vs the rational classifier, for all real points of the simplex"""
    import localcider.backend.plotting as PL
    rec = install(I)
    I.call(PL.finalize_DasPappu, [rec, True, "t", 1, 1], {})
    fills = rec.of("fill")
    ob = Obl(I, res)
    ok = len(fills) == 5
    ob.prove(ok, "five regions are drawn", lambda m: dict(kind="geometry"))
    if not ok:
        return finish(I, res)
    x, y = z3.Real("fplus"), z3.Real("fminus")
    I.solver.add(x >= 0, y >= 0, x + y <= 1)
    q14, q720 = z3.RealVal("1/4"), z3.RealVal("7/20")
    fcr, ncpr = x + y, x - y
    absn = z3.If(ncpr >= 0, ncpr, -ncpr)
    cls = {1: fcr < q14, 2: z3.And(fcr >= q14, fcr <= q720), 3: z3.And(fcr > q720, absn < q720), 4: z3.And(fcr > q720, absn >= q720, y > x), 5: z3.And(fcr > q720, absn >= q720, x > y)}
    res["paths"] += 1
    for r in range(1, 6):
        (xs, ys), _ = fills[r - 1]
        pts = [(F(float(a)).limit_denominator(10 ** 9), F(float(b)).limit_denominator(10 ** 9)) for a, b in zip(xs, ys)]
        n = len(pts)
        area = sum(pts[i][0] * pts[(i + 1) % n][1] - pts[(i + 1) % n][0] * pts[i][1] for i in range(n))
        sgn = 1 if area > 0 else -1
        inside = []
        for i in range(n):
            (x1, y1), (x2, y2) = pts[i], pts[(i + 1) % n]
            cross = (rv(x2 - x1)) * (y - rv(y1)) - (rv(y2 - y1)) * (x - rv(x1))
            inside.append(sgn * cross >= -rv(1e-9))

        def cex(m, r=r):
            def val(v):
                z = m.eval(v, model_completion=True)
                return float(z.as_fraction())
            return dict(kind="geometry", region=r, x=val(x), y=val(y))
        ob.prove(z3.Implies(cls[r], z3.And(*inside)), "every point classified as region %d lies inside the polygon drawn for region %d" % (r, r), cex)
    m = ob.witness(label="geometry")
    res["samples"].append(dict(item="geometry", polygons=[[list(map(float, f[0][0])), list(map(float, f[0][1]))] for f in fills], obligation="classifier region r => inside drawn polygon r, for all real (f+, f-)"))
    return finish(I, res)


# ---------------------------------------------------------------------------------------------------------------
def replay(cex):
    """native replay with real matplotlib (Agg): inspect the returned pyplot object's current axes"""
    import matplotlib
    matplotlib.use("Agg")
    import matplotlib.pyplot as plt
    import numpy as np
    from localcider.sequenceParameters import SequenceParameters
    import localcider.plots as PM
    import localcider.backend.plotting as PL
    kind = cex["kind"]
    plt.close("all")
    if kind == "geometry":
        from props.c08 import region_exact
        PL.finalize_DasPappu(plt, True, "t", 1, 1)
        polys = [p.get_xy() for p in plt.gca().patches][:5]
        from matplotlib.path import Path
        x, y = cex["x"], cex["y"]
        r = cex["region"]
        inside = Path(polys[r - 1]).contains_point((x, y), radius=1e-6) or Path(polys[r - 1]).contains_point((x, y), radius=-1e-6)
        plt.close("all")
        return not inside, "point (%r, %r) is classified region %d but lies outside the polygon drawn for it" % (x, y, r)
    fn = cex["fn"]
    TITLE_, LABEL_ = "T!tle-xyz", "lab"
    import tempfile, os
    if kind == "repeats":
        tmpd = tempfile.mkdtemp(prefix="verif_c19_")
        try:
            f = getattr(PM, fn)
            for c_ in cex["counts"]:
                plt.close("all")
                sps = [SequenceParameters(q) for q in ("KEGS", "DDKR", "GSPA")[:c_]]
                if fn.endswith("2"):
                    first = [sps]
                elif "uversky" in fn.lower():
                    first = [[sp.get_uversky_hydropathy() for sp in sps], [sp.get_mean_net_charge() for sp in sps]]
                else:
                    first = [[sp.get_fraction_positive() for sp in sps], [sp.get_fraction_negative() for sp in sps]]
                try:
                    if fn.startswith("show"):
                        ret = f(*first, getFig=True)
                        nm = sum(len(coll.get_offsets()) for coll in ret.gca().collections)
                        if nm != c_:
                            return True, "%s: %d markers for %d sequences" % (fn, nm, c_)
                    else:
                        f(*(first + [os.path.join(tmpd, "o.png")]))
                except Exception as ex:
                    return True, "%s: unlabelled call with %d sequences (after calls with %r) raised %s: %s" % (fn, c_, cex["counts"], type(ex).__name__, str(ex)[:80])
            return False, "ok"
        finally:
            plt.close("all")
            import shutil
            shutil.rmtree(tmpd, ignore_errors=True)
    tmp = tempfile.mkdtemp(prefix="verif_c19_")
    out = os.path.join(tmp, "out.file")
    try:
        if kind == "linear":
            sp = SequenceParameters(cex["seq"])
            getter = {"NCPR": "get_linear_NCPR", "FCR": "get_linear_FCR", "Sigma": "get_linear_sigma", "Hydropathy": "get_linear_hydropathy"}[fn]
            prof = np.asarray(getattr(sp, getter)(cex["w"]))
            if cex["mode"] == "show":
                fig = getattr(sp, "show_linear" + fn)(cex["w"], True)
                if fig is None:
                    return True, "show_linear%s(getFig=True) returned None" % fn
                bars = [p for p in fig.gca().patches]
                hs = [b.get_height() for b in bars]
                xs = [b.get_x() + b.get_width() / 2.0 for b in bars]
                bad = len(bars) != len(cex["seq"]) or any(abs(h - v) > 1e-9 for h, v in zip(hs, prof[1])) or any(abs(a - b) > 1e-9 for a, b in zip(xs, prof[0]))
                return bad, "seq=%s w=%d bars %r profile %r" % (cex["seq"], cex["w"], hs, prof[1].tolist())
            getattr(sp, "save_linear" + fn)(out, cex["w"], "png")
            return not os.path.exists(out), "save_linear%s wrote no file" % fn
        args_common = dict(title=TITLE_, legendOn=cex["legend"], xLim=cex["xLim"], yLim=cex["yLim"], fontSize=10)
        uversky = "uversky" in fn.lower()
        if kind == "module":
            multi = "multiple" in fn
            A = [c[0] for c in cex["coords"]]; B = [c[1] for c in cex["coords"]]
            labels = [LABEL_ + str(i) for i in range(len(A))]
            first = (A if multi else A[0], B if multi else B[0])
            lab = labels if multi else labels[0]
            f = getattr(PM, fn)
            exy = [((B[i], A[i]) if uversky else (A[i], B[i])) for i in range(len(A))]
            if fn.startswith("show"):
                ret = f(first[0], first[1], lab, TITLE_, cex["legend"], cex["xLim"], cex["yLim"], 10, cex["getFig"])
            else:
                ret = f(first[0], first[1], out, lab, TITLE_, cex["legend"], cex["xLim"], cex["yLim"], 10, cex["fmt"])
        else:
            sps = [SequenceParameters(q) for q in cex["seqs"]]
            labels = [LABEL_ + str(i) for i in range(len(sps))]
            exy = [((sp.get_mean_net_charge(), sp.get_uversky_hydropathy()) if uversky else (sp.get_fraction_positive(), sp.get_fraction_negative())) for sp in sps]
            if kind == "module2":
                f = getattr(PM, fn)
                ret = f(sps, labels, TITLE_, cex["legend"], cex["xLim"], cex["yLim"], 10, cex["getFig"]) if fn.startswith("show") else \
                    f(sps, out, labels, TITLE_, cex["legend"], cex["xLim"], cex["yLim"], 10, cex["fmt"])
            else:
                f = getattr(sps[0], fn)
                ret = f(labels[0], TITLE_, cex["legend"], cex["xLim"], cex["yLim"], 10, cex["getFig"]) if fn.startswith("show") else \
                    f(out, labels[0], TITLE_, cex["legend"], cex["xLim"], cex["yLim"], 10, cex["fmt"])
        if fn.startswith("save"):
            return not os.path.exists(out), "%s wrote no file" % fn
        if cex["getFig"]:
            if ret is None:
                return True, "%s(getFig=True) returned None instead of the figure" % fn
            ax = ret.gca()
            offs = []
            for coll in ax.collections:
                offs += [tuple(map(float, o)) for o in coll.get_offsets()]
            problems = []
            if len(offs) != len(exy) or any(abs(o[0] - e[0]) > 1e-9 or abs(o[1] - e[1]) > 1e-9 for o, e in zip(offs, exy)):
                problems.append("markers at %r, true coordinates %r" % (offs, exy))
            if ax.get_title() != TITLE_:
                problems.append("title %r instead of %r" % (ax.get_title(), TITLE_))
            if abs(ax.get_xlim()[1] - cex["xLim"]) > 1e-9 or abs(ax.get_ylim()[1] - cex["yLim"]) > 1e-9 or abs(ax.get_xlim()[0]) > 1e-9 or abs(ax.get_ylim()[0]) > 1e-9:
                problems.append("limits %r %r instead of [0,%r] [0,%r]" % (ax.get_xlim(), ax.get_ylim(), cex["xLim"], cex["yLim"]))
            texts = [t.get_text() for t in ax.texts]
            if texts != labels:
                problems.append("annotations %r instead of %r" % (texts, labels))
            if (ax.get_legend() is not None) != bool(cex["legend"]):
                problems.append("legend presence %s, requested %s" % (ax.get_legend() is not None, cex["legend"]))
            return bool(problems), "%s: %s" % (fn, "; ".join(problems) if problems else "ok")
        return False, "show without getFig: nothing observable natively"
    finally:
        plt.close("all")
        import shutil
        shutil.rmtree(tmp, ignore_errors=True)


def finding_key(cex):
    if cex["kind"] == "geometry":
        return "geometry:region%d" % cex["region"]
    if cex["kind"] == "repeats":
        return "repeats:%s" % cex["fn"]
    return "%s:%s:getFig=%s" % (cex["kind"], cex["fn"], cex.get("getFig"))
