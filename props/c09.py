"""C09 — pH-dependent charge follows Henderson-Hasselbalch; the isoelectric point neutralises the chain."""
import random, ast, itertools, math
import z3
from fractions import Fraction as F
from vf.sx import *
from symx.stubs import Pow10Model

ID = "C09"
TITLE = "pH-dependent charge follows Henderson-Hasselbalch; pI neutralises the chain"
TOL = 1e-9
ASSUMPTIONS = [
    "pH is a symbolic real; 10**x for a symbolic real x is an uninterpreted function P and 1/(1+P(x)) an uninterpreted function Q with the contract facts only: "
    "P > 0, 0 < Q < 1, Q weakly decreasing (instantiated on all pairs of occurring arguments), equal arguments give equal values; the reference uses the same Q with the EMBOSS pKa table, "
    "so a changed pKa or a changed sign/argument gives a solver model whose pH is then replayed with the real 10**x",
    "sums over residues are decided by per-residue lemmas (each residue's term is a finite case split over the 20 letters) combined linearly",
    "isoelectric point: work items fix the counts of the seven titratable residue types; the arrangement and the remaining residues are symbolic; every bisection midpoint is concrete and the "
    "normalised charge at it is a linear function of the (fixed) counts, so every comparison with the 0.02 threshold is entailed by the solver; float summation order is modelled in exact rationals",
    "messages formatted with a symbolic number are opaque placeholders",
]
OUTSIDE = ["sequences longer than the bound", "the numeric behaviour of 10**x beyond positivity and monotonicity in the symbolic-pH obligations (counterexamples are replayed numerically)"]
NMAX = {"quick": 5, "thorough": 10}
NPI = {"quick": 3, "thorough": 5}
ITEM_TIMEOUT = {"quick": 900, "thorough": 3400}
TIT = "KRHDECY"


def bounds(tier):
    return "symbolic pH (any real): all sequences N <= %d; isoelectric point: every composition of titratable residue types with N <= %d" % (NMAX[tier], NPI[tier])


def items(tier, seed):
    out = []
    for N in range(NMAX[tier], 0, -1):
        for g in ("charge", "monotone", "range"):
            out.append(dict(name="%s_N%d" % (g, N), kind=g, N=N))
    for N in range(1, NPI[tier] + 1):
        for comp in itertools.combinations_with_replacement(range(8), N):      # 7 titratable types + 'other'
            counts = [comp.count(k) for k in range(8)]
            out.append(dict(name="pI_N%d_%s" % (N, "".join(map(str, counts))), kind="pI", N=N, counts=counts))
    return out


def hh_terms(pm, vs, pH, mode, N):
    """reference: per-residue Henderson-Hasselbalch terms / N with the EMBOSS pKa table, written with the same Q"""
    terms = []
    for v in vs:
        acc = z3.RealVal(0)
        for a in T.TITR_POS:
            acc = z3.If(v == IDX[a], pm.Q(pH - rv(T.PKA[a])), acc)
        for a in T.TITR_NEG:
            sign = 1 if mode == "TOTAL" else -1
            acc = z3.If(v == IDX[a], sign * pm.Q(rv(T.PKA[a]) - pH), acc)
        terms.append(acc / N)
    return terms


def prove_sum_ge(ob, A, B, label, cex, extra=()):
    """A >= B - tol for two sums over residues, by per-residue lemmas (groups by input variable) and a linear combination"""
    I, res = ob.I, ob.res
    cut = SumCut(ob, A, [B], TOL)
    try:
        ia, sa = addends(A), addends(B)
        groups = {}
        for c, a in ia:
            key = frozenset(n for n in (z3_consts(a) if a is not None else []) if n.startswith("c"))
            groups.setdefault(key, [[], []])[0].append((c, a))
        for c, a in sa:
            key = frozenset(n for n in (z3_consts(a) if a is not None else []) if n.startswith("c"))
            groups.setdefault(key, [[], []])[1].append((c, a))

        def tot(lst, abstract):
            ts = [(rv(c) * (cut._ab(a) if abstract else (z3.ToReal(a) if a.sort() == z3.IntSort() else a)) if a is not None else rv(c)) for c, a in lst]
            return z3.Sum(ts) if len(ts) > 1 else (ts[0] if ts else z3.RealVal(0))
        abs_l = []
        ng = max(1, len(groups))
        for key, (gi, gs) in groups.items():
            lem = tot(gi, False) - tot(gs, False) >= -rv(F(TOL) / ng)
            I.solver.push()
            for e in extra:
                I.solver.add(e)
            I.solver.add(z3.Not(lem))
            r = I.solver.check()
            I.solver.pop()
            if r != z3.unsat:
                raise RuntimeError("lemma")
            abs_l.append(tot(gi, True) - tot(gs, True) >= -rv(F(TOL) / ng))
        s2 = z3.Solver()
        for l in abs_l:
            s2.add(l)
        s2.add(z3.Not(z3.substitute(A - B >= -rv(TOL), *cut.subs())))
        if s2.check() == z3.unsat:
            res["obligations"] += len(abs_l) + 1
            res["discharged"] += len(abs_l) + 1
            return True
    except Exception:
        pass
    return ob.prove(A - B >= -rv(TOL), label, cex, extra=list(extra))


def run_item(item):
    from localcider.sequenceParameters import SequenceParameters
    res = new_result()
    I = interp()
    N, kind = item["N"], item["kind"]
    vs, s = sym_sequence(I, N)
    if kind == "pI":
        return run_pi(item, res, I, vs, s)
    pm = Pow10Model()
    I.pow10 = pm
    pH = z3.Real("pH")
    pH2 = z3.Real("pH2")

    def pval(m, v):
        x = m.eval(v, model_completion=True)
        return float(x.as_fraction()) if z3.is_rational_value(x) else float(x.approx(20).as_fraction())

    def cex(m):
        return dict(kind=kind, seq=seq_of_model(m, vs), pH=pval(m, pH), pH2=pval(m, pH2))
    SP = lambda: I.call(SequenceParameters, [s], {})
    if kind == "charge":
        I.solver.add(pH >= 0, pH <= 14)

        def thunk():
            p = Sym(pH, "real")
            return (I.call(SP().get_NCPR, [p], {}), I.call(SP().get_FCR, [p], {}), I.call(SP().get_mean_net_charge, [p], {}), I.call(SP().get_fraction_expanding, [p], {}))

        def on_return(ob, val, m):
            ncpr, fcr, mnc, fer = [zreal(x) if is_sym(x) else rv(float(x)) for x in val]
            ax = pm.axioms()
            okn = prove_sum_close(ob, ncpr, hh_terms(pm, vs, pH, "NET", N), TOL, "NCPR(pH) == Henderson-Hasselbalch sum / N (N=%d)" % N, cex)
            okf, cutf = prove_sum_close(ob, fcr, hh_terms(pm, vs, pH, "TOTAL", N), TOL, "FCR(pH) == Henderson-Hasselbalch sum / N (N=%d)" % N, cex, want_cut=True)
            ob.prove(z3.Or(within(mnc - ncpr, TOL), within(mnc + ncpr, TOL)), "mean net charge(pH) == |NCPR(pH)| (N=%d)" % N, cex)
            ob.prove(mnc >= -rv(TOL), "mean net charge(pH) >= 0 (N=%d)" % N, cex)
            prove_sum_close(ob, fer, [fcr] + [z3.If(v == IDX["P"], z3.RealVal(1) / N, z3.RealVal(0)) for v in vs], TOL, "fraction expanding(pH) == FCR(pH) + proline fraction (N=%d)" % N, cex)
            if not res["samples"]:
                res["samples"].append(dict(item=item["name"], witness=cex(m), obligation="NCPR/FCR/|NCPR|/FER at any pH in [0,14] equal the Henderson-Hasselbalch sums (Q uninterpreted)"))
            c = cex(m)
            nat = [getattr(SequenceParameters(c["seq"]), n)(c["pH"]) for n in ("get_NCPR", "get_FCR", "get_mean_net_charge", "get_fraction_expanding")]
            ref = reference(c["seq"], c["pH"])
            if all(abs(a - b) < 1e-9 for a, b in zip(nat, ref)):
                res["validated"] += 1
        explore(I, res, thunk, on_return, cex, label=item["name"])
    elif kind == "monotone":
        I.solver.add(pH >= 0, pH <= 14, pH2 >= 0, pH2 <= 14, pH <= pH2)

        def thunk():
            return (I.call(SP().get_NCPR, [Sym(pH, "real")], {}), I.call(SP().get_NCPR, [Sym(pH2, "real")], {}),
                    I.call(SP().get_FCR, [Sym(pH, "real")], {}))

        def on_return(ob, val, m):
            n1, n2, f1 = [zreal(x) if is_sym(x) else rv(float(x)) for x in val]
            ax = pm.axioms()
            prove_sum_ge(ob, n1, n2, "pH <= pH' => NCPR(pH) >= NCPR(pH') (N=%d)" % N, cex, extra=ax)
            prove_sum_ge(ob, f1, n1, "NCPR(pH) <= FCR(pH) (N=%d)" % N, cex, extra=ax)
            prove_sum_ge(ob, f1, -n1, "-NCPR(pH) <= FCR(pH) (N=%d)" % N, cex, extra=ax)
            tit = [z3.If(in_set(v, TIT), z3.RealVal(1) / N, z3.RealVal(0)) for v in vs]
            prove_sum_ge(ob, z3.Sum(tit) if len(tit) > 1 else tit[0], f1, "FCR(pH) <= titratable residues / N (N=%d)" % N, cex, extra=ax)
            if not res["samples"]:
                res["samples"].append(dict(item=item["name"], witness=cex(m), obligation="monotonicity in pH and |NCPR| <= FCR <= #titratable/N for all pH <= pH' in [0,14]"))
        explore(I, res, thunk, on_return, cex, label=item["name"])
    else:   # range: pH outside [0,14] rejected, inside accepted
        for getter in ("get_FCR", "get_NCPR", "get_mean_net_charge", "get_fraction_expanding"):
            def thunk(getter=getter):
                return I.call(getattr(SP(), getter), [Sym(pH, "real")], {})

            def cx(m, getter=getter):
                d = cex(m); d["getter"] = getter
                return d

            def on_raise(ob, exc, m, getter=getter):
                ob.prove(z3.Or(pH < 0, pH > 14), "%s(pH) raises only for pH outside [0,14] (N=%d)" % (getter, N), cx)

            def on_return(ob, val, m, getter=getter):
                ob.prove(z3.And(pH >= 0, pH <= 14), "%s(pH) answers only for pH inside [0,14] (N=%d)" % (getter, N), cx)
            explore(I, res, thunk, on_return, cx, label="%s %s" % (item["name"], getter), on_raise=on_raise)
        res["samples"].append(dict(item=item["name"], obligation="a pH outside [0,14] is rejected on every path, a pH inside is answered"))
    res["notes"].extend(sorted(I.notes))
    return finish(I, res)


def run_pi(item, res, I, vs, s):
    from localcider.sequenceParameters import SequenceParameters
    N, counts = item["N"], item["counts"]
    classes = list(TIT) + ["".join(a for a in AA if a not in TIT)]
    for k, letters in enumerate(classes):
        I.solver.add(count(in_set(v, letters) for v in vs) == counts[k])
    rng = seeded_rng(str(counts))

    def cex(m):
        return dict(kind="pI", seq=seq_of_model(m, vs))

    def thunk():
        return I.call(I.call(SequenceParameters, [s], {}).get_isoelectric_point, [], {})

    def on_return(ob, val, m):
        nm = item["name"]
        if is_sym(val):
            res["inconclusive"].append("isoelectric point is not entailed concrete for %s" % nm)
            return
        ntit = sum(counts[:7])
        if ntit == 0:
            ob.prove(val == 7.0, "pI == 7.0 when nothing titrates (%s)" % nm, lambda m_: cex(m))
        else:
            ch = ref_charge_counts(counts, float(val)) / ntit
            ob.prove(abs(ch) <= 0.02 + 1e-9, "mean charge per titratable residue at the returned pI is within 0.02 of zero (%s)" % nm, lambda m_: cex(m))
        if not res["samples"]:
            res["samples"].append(dict(item=nm, witness=seq_of_model(m, vs), pI=float(val), obligation="terminates (no raising path), charge at pI within 0.02, for every arrangement of the composition"))
        q = seq_of_model(m, vs)
        if abs(SequenceParameters(q).get_isoelectric_point() - float(val)) < 1e-12:
            res["validated"] += 1
        else:
            res["inconclusive"].append("TRANSLATOR-VALIDATION FAILED pI %s" % q)
    explore(I, res, thunk, on_return, cex, label=item["name"])
    res["notes"].extend(sorted(I.notes))
    return finish(I, res)


def ref_charge_counts(counts, pH):
    tot = 0.0
    for k, a in enumerate(TIT):
        if a in T.TITR_POS:
            tot += counts[k] / (1 + 10 ** (pH - T.PKA[a]))
        else:
            tot -= counts[k] / (1 + 10 ** (T.PKA[a] - pH))
    return tot


def reference(seq, pH):
    N = len(seq)
    pos = sum(1 / (1 + 10 ** (pH - T.PKA[a])) for a in seq if a in T.TITR_POS)
    neg = sum(1 / (1 + 10 ** (T.PKA[a] - pH)) for a in seq if a in T.TITR_NEG)
    ncpr = (pos - neg) / N
    fcr = (pos + neg) / N
    return [ncpr, fcr, abs(ncpr), fcr + seq.count("P") / N]


def replay(cex):
    from localcider.sequenceParameters import SequenceParameters
    seq = cex["seq"]
    N = len(seq)
    kind = cex["kind"]
    if kind == "pI":
        try:
            pi = SequenceParameters(seq).get_isoelectric_point()
        except Exception as ex:
            return True, "get_isoelectric_point(%s) raised %s: %s" % (seq, type(ex).__name__, str(ex)[:80])
        counts = [seq.count(a) for a in TIT]
        nt = sum(counts)
        if nt == 0:
            return pi != 7.0, "no titratable residue: pI=%r" % pi
        ch = ref_charge_counts(counts + [0], pi) / nt
        return abs(ch) > 0.02 + 1e-9, "seq=%s pI=%r mean charge per titratable residue there %r" % (seq, pi, ch)
    if kind == "range":
        for pH in (cex["pH"],):
            try:
                getattr(SequenceParameters(seq), cex.get("getter", "get_NCPR"))(pH)
                ok = True
            except Exception:
                ok = False
            inside = 0 <= pH <= 14
            if ok != inside:
                return True, "%s(pH=%r) on %s: answered=%s although pH inside [0,14]=%s" % (cex.get("getter"), pH, seq, ok, inside)
        return False, "ok"
    sp = SequenceParameters(seq)
    problems = []
    # history: the isoelectric point was asked for first (on this object and on another object of the same string)
    try:
        SequenceParameters(seq).get_isoelectric_point()
        sp.get_isoelectric_point()
    except Exception:
        pass
    mids = {7.0, 3.5, 10.5, 1.75, 5.25, 8.75, 12.25, 0.875, 2.625, 4.375, 6.125, 7.875, 9.625, 11.375, 13.125}
    phs = sorted({min(14.0, max(0.0, cex["pH"])), min(14.0, max(0.0, cex["pH2"])), 0.0, 3.9, 4.1, 6.5, 7.0, 8.5, 10.0, 10.1, 12.5, 14.0, 2.0, 5.3, 9.2, 11.3, 13.1} | mids)
    prev = None
    for pH in phs:
        try:
            got = [sp.get_NCPR(pH), sp.get_FCR(pH), sp.get_mean_net_charge(pH), sp.get_fraction_expanding(pH)]
        except Exception as ex:
            return True, "pH-dependent getters raised %s at pH=%r on %s" % (type(ex).__name__, pH, seq)
        ref = reference(seq, pH)
        for nm, a, b in zip(("NCPR", "FCR", "mean net charge", "fraction expanding"), got, ref):
            if abs(a - b) > 1e-9:
                problems.append("%s(pH=%r) on %s = %r, Henderson-Hasselbalch gives %r" % (nm, pH, seq, a, b))
        ntit = sum(1 for c in seq if c in TIT)
        if abs(got[0]) > got[1] + 1e-9 or got[1] > ntit / N + 1e-9:
            problems.append("|NCPR| <= FCR <= titratable/N violated at pH=%r on %s: %r" % (pH, seq, got))
        if prev is not None and got[0] > prev + 1e-9:
            problems.append("NCPR increases with pH on %s between the sampled pH values up to %r" % (seq, pH))
        prev = got[0]
        if problems:
            break
    return bool(problems), problems[0] if problems else "ok"


def finding_key(cex):
    return "%s:%s" % (cex["kind"], cex["seq"])


def fallback(item):
    if item["kind"] == "pI":
        letters = list(TIT) + ["G"]
        return [dict(kind="pI", seq="".join(letters[k] * c for k, c in enumerate(item["counts"])))]
    return [dict(kind=item["kind"], seq=q, pH=7.0, pH2=7.0, getter="get_NCPR") for q in fallback_seqs(item, 12)]
