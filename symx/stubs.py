"""nondeterministic stubs for the environment: random.Random, time.time"""
import ast, itertools
import z3
from .values import *
from .interp import PyRaise, mk_fd_apply

_ctr = itertools.count()


class FakeRandom:
    """stands for random.Random(): every draw is an arbitrary value permitted by the documented contract"""
    _symx_symbolic = True
    _symx_call_native = True      # methods of this object are executed by Python (they manipulate symbolic values themselves)

    def __init__(self, I, log=None):
        self.I = I
        self.log = log if log is not None else []
        self.vars = []          # (name, z3 var) of every draw, in order

    def fresh(self, kind, lo=None, hi=None):
        n = "rng%d_%s" % (next(_ctr), kind)
        v = z3.Real(n) if kind == "u" else z3.Int(n)
        self.vars.append((n, v))
        return v

    # --- contract: seed() accepts anything
    def seed(self, *a):
        return None

    # --- random(): a float in [0, 1)
    def random(self):
        v = self.fresh("u")
        self.I.define(z3.And(v >= 0, v < 1))
        return Sym(v, "real")

    # --- randint(a, b): an integer in [a, b] (ValueError if empty)
    def randint(self, a, b):
        I = self.I
        a = I.concretize(a, "randint lower bound")
        b = I.concretize(b, "randint upper bound")
        if a > b:
            raise PyRaise(ValueError("empty range for randrange() (%d, %d)" % (a, b + 1)))
        if a == b:
            return a
        v = self.fresh("i")
        I.define(z3.And(v >= a, v <= b))
        return FD([(v == k, k) for k in range(a, b + 1)])

    # --- shuffle(list): the list becomes an arbitrary permutation of itself (in place)
    def shuffle(self, lst):
        I = self.I
        if not isinstance(lst, list):
            raise PyRaise(TypeError("shuffle needs a mutable sequence"))
        n = len(lst)
        if n <= 1:
            return None
        ps = [self.fresh("p") for _ in range(n)]
        for p in ps:
            I.define(z3.And(p >= 0, p < n))
        I.define(z3.Distinct(*ps))
        old = list(lst)
        new = []
        for j in range(n):
            new.append(I.prune(mk_fd_merge(I, [(ps[j] == i, old[i]) for i in range(n)])))
        I.list_replace(lst, new)
        return None

    # --- sample(population, k): k distinct positions of a sequence; sets are rejected (Python >= 3.11)
    def sample(self, population, k):
        I = self.I
        if isinstance(population, (set, frozenset, SetList)) or (isinstance(population, GList) and getattr(population, "is_set", False)):
            raise PyRaise(TypeError("Population must be a sequence.  For dicts or sets, use sorted(d)."))
        k = I.concretize(k, "sample size")
        if has_gitems(population):
            population = as_glist(population)
        if isinstance(population, GList):
            items = list(population.items)
        else:
            items = [(True, x) for x in I.iterate(population)]
        n = len(items)
        present = [zbool(g) for g, _ in items]
        cnt = z3.Sum([z3.If(g, 1, 0) for g in present]) if n > 1 else (z3.If(present[0], 1, 0) if n else z3.IntVal(0))
        I.raise_if(z3.simplify(z3.Or(cnt < k, z3.BoolVal(k < 0))), PyRaise(ValueError("Sample larger than population or is negative")))
        out = []
        chosen = []
        for _ in range(k):
            c = self.fresh("s")
            I.define(z3.And(c >= 0, c < n))
            I.define(z3.Or(*[z3.And(c == j, present[j]) for j in range(n)]))
            for c2 in chosen:
                I.define(c != c2)
            chosen.append(c)
            out.append(I.prune(mk_fd_merge(I, [(c == j, items[j][1]) for j in range(n)])))
        return out

    def choice(self, seq):
        return self.sample(seq, 1)[0]


def mk_fd_merge(I, cases):
    """value selected by mutually exclusive guards; elements may themselves be FD"""
    flat = []
    for g, v in cases:
        if isinstance(v, FD):
            for g2, v2 in v.cases:
                flat.append((z3.And(g, g2), v2))
        elif isinstance(v, Sym):
            raise Unsupported("selection among symbolic numbers")
        else:
            flat.append((g, v))
    return mk_fd(flat)


def install_rng(I):
    """replace random.Random (as seen by the repository's modules) and time.time"""
    import random, time
    made = []

    def make(I_, *a, **k):
        r = FakeRandom(I_)
        made.append(r)
        return r
    I.stubs[random.Random] = make
    I.stubs[time.time] = lambda I_: 0.0
    return made


class Pow10Model:
    """10**x for symbolic real x as an uninterpreted function P, and 1/(1+P(x)) as an uninterpreted function Q.
    Only contract facts are assumed: P(x) > 0;  0 < Q(x) < 1;  Q is (weakly) decreasing; equal arguments give equal values."""

    def __init__(self):
        self.P = z3.Function("pow10", z3.RealSort(), z3.RealSort())
        self.Q = z3.Function("hh", z3.RealSort(), z3.RealSort())
        self.args = []      # argument terms of Q (and P) that occur

    def power(self, I, b):
        x = b.z
        self._note(I, x)
        return Sym(self.P(x), "real")

    def _note(self, I, x):
        if not any(x.eq(a) for a in self.args):
            self.args.append(x)
            I.define(z3.And(self.P(x) > 0, self.Q(x) > 0, self.Q(x) < 1))

    def reciprocal(self, I, num, den):
        """num / (1 + P(x)) -> num * Q(x)"""
        d = den
        if z3.is_app(d) and d.decl().kind() == z3.Z3_OP_ADD and d.num_args() == 2:
            a, b = d.arg(0), d.arg(1)
            for one, p in ((a, b), (b, a)):
                os_ = z3.simplify(one)
                if (z3.is_rational_value(os_) or z3.is_int_value(os_)) and os_.as_fraction() == 1 and z3.is_app(p) and p.decl().eq(self.P):
                    x = p.arg(0)
                    self._note(I, x)
                    return num * self.Q(x)
        return None

    def axioms(self):
        """monotonicity instances over all pairs of occurring arguments"""
        out = []
        for i, a in enumerate(self.args):
            for b in self.args[i + 1:]:
                out.append(z3.Implies(a <= b, self.Q(a) >= self.Q(b)))
                out.append(z3.Implies(b <= a, self.Q(b) >= self.Q(a)))
                out.append(z3.Implies(a <= b, self.P(a) <= self.P(b)))
                out.append(z3.Implies(b <= a, self.P(b) <= self.P(a)))
        return out


class UFModel:
    """exp, log and sqrt of symbolic reals as uninterpreted functions with contract facts only:
    exp > 0, exp monotone, exp(0) = 1;  log(x) > 0 for x > 1;  1 < sqrt(x) < x for x > 1, sqrt(x) > 0"""

    def __init__(self):
        R = z3.RealSort()
        self.E = z3.Function("exp", R, R)
        self.L = z3.Function("log", R, R)
        self.S = z3.Function("sqrt", R, R)
        self.eargs = []

    def exp(self, I, x):
        if not any(x.eq(a) for a in self.eargs):
            self.eargs.append(x)
            I.define(z3.And(self.E(x) > 0, z3.Implies(x <= 0, self.E(x) <= 1), z3.Implies(x >= 0, self.E(x) >= 1)))
        return self.E(x)

    def log(self, I, x):
        I.define(z3.Implies(x > 1, self.L(x) > 0))
        return self.L(x)

    def sqrt(self, I, x):
        I.define(z3.And(self.S(x) > 0, z3.Implies(x > 1, z3.And(self.S(x) > 1, self.S(x) < x))))
        return self.S(x)
