"""models of builtins / numpy / stdlib functions when called with symbolic arguments"""
import ast, math, copy, types
import z3
import numpy as np
from .values import *
from .interp import PyRaise, mk_fd_apply, CONTROL, SymMethod


def _items(x):
    if isinstance(x, SymArray):
        return list(x.items)
    if isinstance(x, tuple) and len(x) == 2 and isinstance(x[0], str) and x[0] == "__vstack__":
        return list(x[1])
    return x


def call_model(I, fn, args, kwargs):
    name = getattr(fn, "__name__", str(fn))
    if fn is len:
        (x,) = args
        if has_gitems(x):
            x = as_glist(x)
        elif isinstance(x, SetList):
            return len(x)
        if isinstance(x, WhereResult):
            return I.count_true([I.truth(m) for m in x.mask.items])
        if isinstance(x, FD):
            return mk_fd_apply(I, lambda v: call_model(I, len, [v], {}) if I.deep_symbolic(v) else len(v), x)
        if isinstance(x, SymStr):
            return I.str_len(x)
        if isinstance(x, SymArray):
            return len(x.items)
        if isinstance(x, GList):
            return I.count_true([I.truth(I.from_truth(zbool(g))) if not isinstance(g, bool) else g for g, _ in x.items])
        if isinstance(x, SymDict):
            return I.count_true([I.truth(I.from_truth(zbool(g))) if not isinstance(g, bool) else g for g, _ in x.entries.values()])
        if isinstance(x, Sym):
            raise PyRaise(TypeError("object of type '%s' has no len()" % x.kind))
        try:
            return len(x)
        except TypeError as ex:
            raise PyRaise(ex)
    if name == "join" and isinstance(getattr(fn, "__self__", None), str):
        sep = fn.__self__
        out = []
        for i, p_ in enumerate(I.iterate(args[0])):
            if i and sep:
                out.append(sep)
            if isinstance(p_, FD) and not all(isinstance(v, str) for _, v in p_.cases):
                p_ = I.prune(p_)
                if isinstance(p_, FD) and not all(isinstance(v, str) for _, v in p_.cases):
                    if I.branch(z3.Or(*[g for g, v in p_.cases if not isinstance(v, str)])):
                        raise PyRaise(TypeError("sequence item: expected str instance"))
                    p_ = I.prune(p_)
            elif not isinstance(p_, (str, SymStr, FD)):
                raise PyRaise(TypeError("sequence item: expected str instance"))
            out.append(p_)
        return mk_str(out)
    if isinstance(getattr(fn, "__self__", None), str) and isinstance(fn, types.BuiltinMethodType):
        # concrete string receiver with symbolic arguments
        recv = fn.__self__
        if name == "count" and len(args) == 1:
            a = args[0]
            if isinstance(a, FD):
                return mk_fd_apply(I, _native1(recv.count), a)
        raise Unsupported("str.%s with symbolic argument" % name)
    if fn is float:
        (x,) = args
        if isinstance(x, FD):
            return mk_fd_apply(I, _native1(float), x)
        if isinstance(x, SymStr):
            raise Unsupported("float(symbolic string)")
        s = to_sym(x)
        return Sym(as_real(s), "real")
    if fn is int:
        x = args[0]
        if isinstance(x, FD):
            return mk_fd_apply(I, _native1(int), x)
        if isinstance(x, SymStr):
            u = x.uniform_chars()
            if u is not None and len(u) == 1 and len(args) == 1:
                return mk_fd_apply(I, _native1(int), u[0]) if isinstance(u[0], FD) else int(u[0])
            raise Unsupported("int(symbolic string)")
        s = to_sym(x)
        if s.kind in ("int", "bool"):
            return Sym(as_int(s), "int")
        # int() truncates toward zero
        r = s.z
        fl = z3.ToInt(r)
        return Sym(z3.If(r >= 0, fl, -z3.ToInt(-r)), "int")
    if fn is bool:
        return I.from_truth(I.truth(args[0]))
    if fn is str:
        (x,) = args
        if isinstance(x, FD):
            return mk_fd_apply(I, _native1(str), x)
        if isinstance(x, SymStr):
            return x
        if isinstance(x, Sym):
            # only used to build messages in this code base: opaque placeholder (listed as an assumption)
            I.notes.add("str() of a symbolic number -> opaque placeholder (message text)")
            return "<num>"
        if isinstance(x, (list, tuple, dict, SymArray, GList)):
            I.notes.add("str() of a container with symbolic content -> opaque placeholder (message text)")
            return "<obj>"
        raise Unsupported("str(%s)" % type(x).__name__)
    if fn is abs:
        (x,) = args
        if isinstance(x, FD):
            return mk_fd_apply(I, _native1(abs), x)
        if isinstance(x, SymArray):
            return SymArray([call_model(I, abs, [i], {}) if is_sym(i) else abs(i) for i in x.items], x.isfloat)
        s = to_sym(x)
        if s.kind == "fp":
            return Sym(z3.fpAbs(s.z), "fp")
        if s.kind == "bv":
            return Sym(z3.If(s.z >= 0, s.z, -s.z), "bv")
        z = as_real(s) if s.kind == "real" else as_int(s)
        return Sym(z3.If(z >= 0, z, -z), "real" if s.kind == "real" else "int")
    if fn is np.abs or fn is np.absolute or fn is np.fabs:
        return call_model(I, abs, args, kwargs)
    if fn is sum:
        acc = args[1] if len(args) > 1 else 0
        for it in I.iterate(args[0]):
            acc = I.binop(ast.Add(), acc, it)
        return acc
    if fn is np.sum:
        acc = 0
        for it in I.iterate(args[0]):
            acc = I.binop(ast.Add(), acc, it)
        return acc
    if fn is np.mean:
        its = I.iterate(args[0])
        acc = 0
        for it in its:
            acc = I.binop(ast.Add(), acc, it)
        r = I.binop(ast.Div(), acc, float(len(its)))
        if isinstance(r, Sym):
            r = Sym(r.z, r.kind, np_scalar=True)
        return r
    if (fn is np.exp or fn is np.log or fn is math.exp or fn is math.log) and I.uf is not None and len(args) == 1 and isinstance(args[0], (Sym, FD)):
        x = as_real(to_sym(args[0]))
        return Sym(I.uf.exp(I, x) if fn in (np.exp, math.exp) else I.uf.log(I, x), "real", np_scalar=True)
    if fn in (min, max):
        its = I.iterate(args[0]) if len(args) == 1 else list(args)
        if not its:
            raise PyRaise(ValueError("%s() arg is an empty sequence" % name))
        acc = its[0]
        for it in its[1:]:
            c = I.binop(ast.Lt() if fn is min else ast.Gt(), it, acc)
            t = I.truth(c)
            acc = (it if t else acc) if isinstance(t, bool) else I.merge(t, it, acc)
        return acc
    if fn is np.where:
        if len(args) != 1:
            raise Unsupported("3-argument np.where on symbolic data")
        m = args[0]
        if not isinstance(m, SymArray):
            m = SymArray(list(m))
        return (WhereResult(m),)
    if fn is np.append:
        arr, v = args
        if isinstance(arr, SymArray):
            items, isf = list(arr.items), arr.isfloat
        elif isinstance(arr, np.ndarray):
            items, isf = [pyscalar(x) for x in arr], arr.dtype.kind == "f"
        else:
            items, isf = list(arr), True   # np.append([], x) -> float64
        vs = list(_items(v)) if isinstance(v, (list, tuple, SymArray, np.ndarray)) else [v]
        if isf:
            vs = [float(x) if isinstance(x, (int, bool)) and not isinstance(x, float) else x for x in vs]
        return SymArray(items + vs, isf)
    if fn is np.array or fn is np.asarray:
        x = args[0]
        if isinstance(x, SymArray):
            return SymArray(list(x.items), x.isfloat)
        return SymArray(list(x), any(isinstance(pyscalar(i), float) for i in x if not is_sym(i)))
    if fn is np.power or fn is pow:
        a, b = args[:2]
        if I.pow10 is not None and not is_sym(a) and a == 10 and (isinstance(b, Sym) and b.kind == "real"):
            return I.pow10.power(I, b)
        return I.binop(ast.Pow(), a, b)
    if fn is np.mod:
        a, b = args
        return I.binop(ast.Mod(), a, b)
    if fn is np.vstack:
        rows = []
        for r in list(args[0]):
            if isinstance(r, tuple) and len(r) == 2 and isinstance(r[0], str) and r[0] == "__vstack__":
                rows.extend(r[1])
            elif isinstance(r, np.ndarray):
                if r.ndim == 1:
                    rows.append([pyscalar(x) for x in r])
                else:
                    rows.extend([[pyscalar(x) for x in rr] for rr in r])
            elif isinstance(r, SymArray):
                rows.append(list(r.items))
            else:
                rows.append(list(r))
        if len({len(r) for r in rows}) > 1:
            raise PyRaise(ValueError("all the input array dimensions except for the concatenation axis must match exactly"))
        return ("__vstack__", rows)
    if fn is np.sqrt or fn is math.sqrt:
        (x,) = args
        if isinstance(x, FD):
            return mk_fd_apply(I, _native1(fn), x)
        raise Unsupported("sqrt of symbolic real")
    if fn is isinstance:
        o, t = args
        ts = t if isinstance(t, tuple) else (t,)
        if isinstance(o, FD):
            return mk_fd([(g, isinstance(v, t)) for g, v in o.cases])
        if isinstance(o, SymStr):
            return str in ts
        if isinstance(o, Sym):
            k = {"int": int, "real": float, "bool": bool}[o.kind]
            return any(issubclass(k, x) for x in ts if isinstance(x, type))
        if isinstance(o, GList):
            return list in ts
        if isinstance(o, SymDict):
            return dict in ts
        if isinstance(o, SymArray):
            return np.ndarray in ts
        return isinstance(o, t)
    if fn in (list, tuple) and len(args) == 1:
        x = args[0]
        if isinstance(x, GList):
            return x
        return fn(I.iterate(x))
    if fn is set or fn is frozenset:
        if not args:
            return fn()
        x = args[0]
        if isinstance(x, WhereResult):
            g = GList([(I.canon(I.truth(m)), i) for i, m in enumerate(x.mask.items)])
            g.is_set = True
            return g
        if isinstance(x, GList):
            return x
        its = I.iterate(x)
        if any(I.deep_symbolic(i) for i in its):
            return GList([(True, v) for v in its])
        return fn(its)
    if fn is dict and len(args) == 1 and isinstance(args[0], SymDict):
        return SymDict(args[0].entries)
    if fn is enumerate:
        start = args[1] if len(args) > 1 else kwargs.get("start", 0)
        return list(enumerate(I.iterate(args[0]), start))
    if fn is zip:
        return list(zip(*[I.iterate(a) for a in args]))
    if fn is range:
        return range(*[I.concretize(a, "range bound") for a in args])
    if fn is sorted:
        if isinstance(args[0], GList) and not kwargs and all(not is_sym(v) for _, v in args[0].items):
            vals = [v for _, v in args[0].items]
            if vals == sorted(vals):
                return GList(list(args[0].items))      # a list now, no longer a set
        if not kwargs and not isinstance(args[0], GList):
            its0 = I.iterate(args[0])
            if len(its0) == 2 and any(is_sym(v) for v in its0):
                a0, b0 = its0
                t = I.truth(I.binop(ast.LtE(), a0, b0))
                if isinstance(t, bool):
                    return [a0, b0] if t else [b0, a0]
                return [I.merge(t, a0, b0), I.merge(t, b0, a0)]
        its = I.iterate(args[0])
        if any(I.deep_symbolic(i) for i in its):
            raise Unsupported("sorted() of symbolic elements")
        return sorted(its, **kwargs)
    if fn is reversed:
        return list(reversed(I.iterate(args[0])))
    if fn is copy.deepcopy or fn is copy.copy:
        (x,) = args
        if isinstance(x, SymArray):
            return SymArray(list(x.items), x.isfloat)
        if isinstance(x, list):
            return [call_model(I, fn, [i], {}) if isinstance(i, (list, SymArray)) else i for i in x]
        if isinstance(x, (SymStr, Sym, FD)):
            return x
        raise Unsupported("deepcopy of %s" % type(x).__name__)
    if fn is print:
        return None
    if fn is repr or fn is format:
        raise Unsupported("%s of symbolic value" % name)
    if fn is round:
        x = args[0]
        if isinstance(x, FD):
            return mk_fd_apply(I, lambda v: round(v, *args[1:]), x)
        if len(args) == 1 and isinstance(x, Sym):
            if x.kind in ("int", "bool"):
                return Sym(as_int(x), "int")
            # round-half-to-even on the real model
            f = z3.ToInt(x.z)
            d = x.z - z3.ToReal(f)
            half = z3.RealVal("1/2")
            return Sym(z3.If(d < half, f, z3.If(d > half, f + 1, z3.If(f % 2 == 0, f, f + 1))), "int")
        raise Unsupported("round(symbolic real)")
    if fn is math.floor or fn is math.ceil or fn is np.floor or fn is np.ceil:
        (x,) = args
        if isinstance(x, FD):
            return mk_fd_apply(I, _native1(fn), x)
        s = to_sym(x)
        if s.kind != "real":
            return s
        fl = z3.ToInt(s.z)
        if fn in (math.floor, np.floor):
            return Sym(fl, "int")
        return Sym(z3.If(z3.ToReal(fl) == s.z, fl, fl + 1), "int")
    if fn is math.log:
        if all(isinstance(a, FD) or not is_sym(a) for a in args):
            return _casewise(I, fn, args)
        raise Unsupported("log of symbolic real")
    if fn is hasattr:
        o, n = args
        if isinstance(o, SymStr):
            return hasattr("", n)
        raise Unsupported("hasattr on symbolic value")
    if fn is getattr:
        if len(args) == 3:
            try:
                return I.getattr_(args[0], args[1])
            except PyRaise as ex:
                if isinstance(ex.exc, AttributeError):
                    return args[2]
                raise
        return I.getattr_(args[0], args[1])
    if fn is any or fn is all:
        acc = fn is all
        for it in I.iterate(args[0]):
            acc = I.and_(acc, it) if fn is all else I.or_(acc, it)
        return acc
    if fn is type:
        (o,) = args
        return I.getattr_(o, "__class__")
    if fn is np.argmin or fn is np.argmax:
        its = I.iterate(args[0])
        best_i, best = 0, its[0]
        for i, it in enumerate(its[1:], 1):
            c = I.binop(ast.Lt() if fn is np.argmin else ast.Gt(), it, best)
            t = I.truth(c)
            if isinstance(t, bool):
                if t:
                    best_i, best = i, it
            else:
                best = I.merge(t, it, best)
                best_i = I.merge(t, i, best_i)
        return best_i
    # generic: casewise native execution over FD arguments (pure function assumption)
    if not kwargs and all(isinstance(a, FD) or not I.deep_symbolic(a) for a in args):
        nfd = sum(1 for a in args if isinstance(a, FD))
        if 1 <= nfd <= 2 and not isinstance(fn, type) and getattr(fn, "__module__", "") in ("math", "numpy", "builtins", None):
            return _casewise(I, fn, args)
    raise Unsupported("no model for call %s with symbolic args" % name)


def _native1(fn):
    def f(v):
        try:
            return pyscalar(fn(v))
        except CONTROL:
            raise
        except Exception as e:
            raise PyRaise(e)
    return f


def _casewise(I, fn, args):
    def rec(i, acc):
        if i == len(args):
            try:
                return pyscalar(fn(*acc))
            except CONTROL:
                raise
            except Exception as e:
                raise PyRaise(e)
        a = args[i]
        if isinstance(a, FD):
            return mk_fd_apply(I, lambda v: rec(i + 1, acc + [v]), a)
        return rec(i + 1, acc + [a])
    return rec(0, [])


def call_method_model(I, r, name, args, kwargs):
    if isinstance(r, SymArray):
        if name in ("sum", "mean", "min", "max", "any", "all", "argmin", "argmax") and not args and not kwargs:
            fn = {"sum": np.sum, "mean": np.mean, "min": min, "max": max, "any": any, "all": all, "argmin": np.argmin, "argmax": np.argmax}[name]
            return call_model(I, fn, [r], {})
        if name == "tolist":
            return list(r.items)
        if name == "copy":
            return SymArray(list(r.items), r.isfloat)
        if name == "item" and len(r.items) == 1:
            return r.items[0]
        if name == "__len__":
            return len(r.items)
        raise Unsupported("ndarray method %s on symbolic array" % name)
    if isinstance(r, GList):
        if name == "__len__":
            return call_model(I, len, [r], {})
        if name == "count":
            tot = 0
            for g, v in r.items:
                tot = I.binop(ast.Add(), tot, I.bool_to_int(I.and_(I.from_truth(zbool(g)), I.binop(ast.Eq(), v, args[0]))))
            return tot
        raise Unsupported("method %s on guarded list" % name)
    if isinstance(r, SymDict):
        if name == "keys":
            return GList([(g, k) for k, (g, v) in r.entries.items()])
        if name == "values":
            return GList([(g, v) for k, (g, v) in r.entries.items()])
        if name == "items":
            return GList([(g, (k, v)) for k, (g, v) in r.entries.items()])
        if name == "get":
            k = args[0]
            dflt = args[1] if len(args) > 1 else None
            if is_sym(k):
                raise Unsupported("symbolic key in SymDict.get")
            if k not in r.entries:
                return dflt
            g, v = r.entries[k]
            t = I.truth(I.from_truth(zbool(g))) if not isinstance(g, bool) else g
            if isinstance(t, bool):
                return v if t else dflt
            try:
                return I.merge(t, v, dflt)
            except MergeAbort:
                return v if I.branch(t) else dflt
        if name == "__len__":
            return call_model(I, len, [r], {})
        if name == "copy":
            return SymDict(r.entries)
        raise Unsupported("method %s on guarded dict" % name)
    if isinstance(r, Sym):
        if name == "is_integer" and r.kind == "int":
            return True
        raise Unsupported("method %s on symbolic number" % name)
    raise Unsupported("method %s on %s" % (name, type(r).__name__))
