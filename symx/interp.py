"""
symx interpreter: symbolic execution of the Python subset used by localCIDER,
working from the source of the real functions (inspect.getsource -> ast) at run time.

control: re-execution DFS over fork decisions + try-merge of if/else via an undo log
"""
import ast, inspect, textwrap, types, builtins, math, operator, itertools, time, copy
import z3
from .values import *
from .values import _key
from fractions import Fraction

DEBUG = False

FD_CROSS_LIMIT = 600

PYOPS = {
    ast.Add: operator.add, ast.Sub: operator.sub, ast.Mult: operator.mul,
    ast.Div: operator.truediv, ast.FloorDiv: operator.floordiv, ast.Mod: operator.mod,
    ast.Pow: operator.pow, ast.BitAnd: operator.and_, ast.BitOr: operator.or_,
    ast.Eq: operator.eq, ast.NotEq: operator.ne, ast.Lt: operator.lt, ast.LtE: operator.le,
    ast.Gt: operator.gt, ast.GtE: operator.ge,
    ast.In: lambda a, b: a in b, ast.NotIn: lambda a, b: a not in b,
    ast.Is: operator.is_, ast.IsNot: operator.is_not,
}
CMP = (ast.Eq, ast.NotEq, ast.Lt, ast.LtE, ast.Gt, ast.GtE)


class ReturnEx(Exception):
    def __init__(self, v):
        self.v = v


class BreakEx(Exception):
    pass


class ContinueEx(Exception):
    pass


class PyRaise(Exception):
    """an exception raised by the interpreted program"""

    def __init__(self, exc):
        self.exc = exc

    def __str__(self):
        return "PyRaise(%s: %s)" % (type(self.exc).__name__, self.exc)


CONTROL = (ReturnEx, BreakEx, ContinueEx, PyRaise, MergeAbort, PathInfeasible, Unsupported)

MISSING = object()
_serial = itertools.count()


class Frame:
    def __init__(self, fn, globs, cls=None, parent=None):
        self.vars = {}
        self.fn = fn
        self.globs = globs
        self.cls = cls
        self.parent = parent
        self.serial = next(_serial)


class InterpFunc:
    """closure created by a nested def / lambda inside interpreted code"""

    def __init__(self, node, frame):
        self.node = node
        self.frame = frame
        self.__name__ = getattr(node, "name", "<lambda>")


class SymMethod:
    def __init__(self, recv, name):
        self.recv = recv
        self.name = name


def lin_indicator(var, n, vals):
    """0/1 term for var in vals as a linear combination of the atoms If(var == k, 1, 0)"""
    vals = sorted(vals)
    if len(vals) <= n - len(vals):
        ts = [z3.If(var == k, 1, 0) for k in vals]
        return z3.Sum(ts) if len(ts) > 1 else (ts[0] if ts else z3.IntVal(0))
    comp = [k for k in range(n) if k not in set(vals)]
    ts = [z3.If(var == k, 1, 0) for k in comp]
    return 1 - (z3.Sum(ts) if len(ts) > 1 else (ts[0] if ts else z3.IntVal(0)))


class Interp:
    def __init__(self, source_roots=("/repo/",), stubs=None, max_paths=200000, force_interp=(),
                 loop_bound=2000, solver_timeout_ms=120000):
        self.solver = z3.Solver()
        self.solver.set("timeout", solver_timeout_ms)
        self.pc = []
        self.decisions = []
        self.plan = []
        self.pos = 0
        self.undo = None
        self.in_merge = 0
        self.ast_cache = {}
        self.source_roots = tuple(source_roots)
        self.stubs = dict(stubs or {})
        self.force_interp = set(force_interp)
        self.loop_bound = loop_bound
        self.max_paths = max_paths
        self.stats = dict(paths=0, forks=0, merges=0, merge_aborts=0, solver_checks=0, native_calls=0,
                          interp_calls=0, solver_s=0.0)
        self.encoded = set()
        self.notes = set()
        self.fd_add_limit = 8
        self.snapshot_hook = None  # callable() -> data captured at the moment a side raise is recorded (attached to the exception)
        self.side_raises = True    # uncaught raises under a guard become side outcomes instead of forks (see raise_if)
        self.try_depth = 0
        self.merge_guards = []
        self.deferred = []
        self.side = []
        self.domains = {}          # input variable name -> (z3 var, domain size) for finite-domain character variables
        self._canon_cache = {}
        self.lazy = False
        self.loop_cut = False
        self.uf = None             # UFModel when exp/log/sqrt of symbolic reals are modelled by uninterpreted functions
        self.pow10 = None          # Pow10Model when 10**x of symbolic reals is modelled by uninterpreted functions
        self.footprint = None     # when a dict: records attribute reads/writes {"r": set, "w": set}
        self.no_merge = False

    # ------------------------------------------------------------------ solver
    def check(self, *extra):
        t = time.time()
        self.stats["solver_checks"] += 1
        r = self.solver.check(*extra)
        self.stats["solver_s"] += time.time() - t
        return r

    def feasible(self, g):
        if isinstance(g, bool):
            return g
        if self.lazy:
            # no solver call while encoding: every syntactically possible branch is explored and the
            # harness decides path feasibility itself (used for the binary64 encodings)
            return not z3.is_false(z3.simplify(g))
        r = self.check(g)
        if r == z3.unknown:
            raise Unsupported("solver unknown in feasibility check")
        return r == z3.sat

    def assume(self, g):
        self.pc.append(g)
        self.solver.add(g)

    def prune(self, fd):
        if not isinstance(fd, FD):
            return fd
        tag = (len(self.pc), self.in_merge, self.solver.num_scopes())
        if fd._pruned_at == tag:
            return fd
        keep = [(g, v) for g, v in fd.cases if self.feasible(g)]
        if not keep:
            raise PathInfeasible()
        r = mk_fd(keep)
        if isinstance(r, FD):
            r._pruned_at = tag
        return r

    def branch(self, g):
        """decide symbolic condition g on this path; may fork"""
        if isinstance(g, bool):
            return g
        g = z3.simplify(g)
        if z3.is_true(g):
            return True
        if z3.is_false(g):
            return False
        ft = self.feasible(g)
        ff = self.feasible(z3.Not(g))
        if ft and not ff:
            self.assume(g)
            return True
        if ff and not ft:
            self.assume(z3.Not(g))
            return False
        if not ft and not ff:
            raise PathInfeasible()
        if self.in_merge:
            raise MergeAbort("fork inside merge")
        if self.pos < len(self.plan):
            choice = self.plan[self.pos]
        else:
            choice = True
        self.decisions.append(choice)
        self.pos += 1
        self.stats["forks"] += 1
        self.assume(g if choice else z3.Not(g))
        return choice

    def raise_if(self, g, exc):
        """the program raises `exc` when g holds.  Returns normally when execution continues under not g.
        Uncaught raises (no enclosing try in the interpreted stack) are recorded as side outcomes with their exact
        path condition, and not g is assumed for the rest of the path -- no re-execution is needed for them."""
        if isinstance(g, bool):
            if g:
                raise exc
            return
        if not self.feasible(g):
            return
        if self.side_raises and self.try_depth == 0:
            if not self.feasible(z3.Not(g)):
                raise exc          # every remaining input raises here: this *is* the path's outcome
            self._snap(exc.exc)
            self.side.append((list(self.pc) + list(self.deferred) + [zbool(x) for x in self.merge_guards] + [g], ("raise", exc.exc)))
            if self.in_merge == 0:
                self.assume(z3.Not(g))
            else:
                self.solver.add(z3.Not(g))
                self.deferred.append(z3.Not(z3.And(*([zbool(x) for x in self.merge_guards] + [g]))))
            return
        if self.branch(g):
            raise exc

    def _snap(self, exc):
        if self.snapshot_hook is not None:
            try:
                exc._symx_snapshot = self.snapshot_hook()
            except Exception:
                pass

    def define(self, constraint):
        """assert a fact about freshly created variables (RNG draws etc.).  Inside a merge branch the fact is recorded as
        (branch guards => fact) so that it survives the branch's solver scope."""
        if self.in_merge == 0:
            self.assume(constraint)
        else:
            self.solver.add(constraint)
            self.deferred.append(z3.Implies(z3.And(*[zbool(x) for x in self.merge_guards]), constraint))

    def flush_deferred(self):
        if self.in_merge == 0 and self.deferred:
            d, self.deferred = self.deferred, []
            for a in d:
                self.assume(a)

    def concretize(self, v, what="value"):
        if isinstance(v, (Sym, FD)):
            pass
        else:
            return pyscalar(v) if kind_of_py(v) else v
        if isinstance(v, FD):
            for g, x in v.cases[:-1]:
                if self.branch(g):
                    return x
            g, x = v.cases[-1]
            if self.branch(g):
                return x
            raise PathInfeasible()
        s = v
        if self.check() != z3.sat:
            raise PathInfeasible()
        val = self.solver.model().eval(s.z, model_completion=True)
        tries = 0
        while True:
            if self.branch(s.z == val):
                if s.kind == "int":
                    return val.as_long()
                if s.kind == "bool":
                    return z3.is_true(val)
                return float(val.as_fraction())
            tries += 1
            if tries > 256:
                raise Unsupported("concretize %s: too many values" % what)
            if self.check() != z3.sat:
                raise PathInfeasible()
            val = self.solver.model().eval(s.z, model_completion=True)

    # ------------------------------------------------------------------ driver
    def explore(self, thunk):
        """yields (path condition list, outcome) for every feasible path of thunk().
        outcome = ("return", value) | ("raise", exception) | ("gap", reason)"""
        self.plan = []
        while True:
            self.pc = []
            self.decisions = []
            self.pos = 0
            self.undo = None
            self.in_merge = 0
            self.try_depth = 0
            self.merge_guards = []
            self.deferred = []
            self.side = []
            self.solver.push()
            try:
                try:
                    res = ("return", thunk())
                except PyRaise as e:
                    res = ("raise", e.exc)
                except PathInfeasible:
                    res = None
                except Unsupported as e:
                    res = ("gap", str(e))
                except RecursionError as e:
                    res = ("gap", "recursion limit")
                if res is not None:
                    self.stats["paths"] += 1
                    yield list(self.pc), res
            finally:
                self.solver.pop()
            # side outcomes: guarded uncaught raises recorded while executing this path
            for spc, sres in self.side:
                self.solver.push()
                try:
                    for g in spc:
                        self.solver.add(g)
                    self.pc = list(spc)
                    if self.check() == z3.sat:
                        self.stats["paths"] += 1
                        yield list(spc), sres
                finally:
                    self.solver.pop()
            self.side = []
            d = self.decisions
            while d and d[-1] is False:
                d.pop()
            if not d:
                return
            d[-1] = False
            self.plan = list(d)
            if self.stats["paths"] > self.max_paths:
                yield [], ("gap", "path budget exhausted")
                return

    # ------------------------------------------------------------------ undo log
    def log(self, entry):
        if self.undo is not None:
            self.undo.append(entry)

    def set_var(self, frame, name, val):
        self.log(("var", frame, name, frame.vars.get(name, MISSING)))
        frame.vars[name] = val

    def set_attr(self, obj, name, val):
        if self.footprint is not None:
            self.footprint["w"].add((type(obj).__name__, name))
        self.log(("attr", obj, name, getattr(obj, name, MISSING)))
        try:
            setattr(obj, name, val)
        except AttributeError as ex:
            raise PyRaise(ex)

    def set_item(self, cont, key, val):
        if isinstance(cont, SymArray):
            if isinstance(key, int) and key < 0:
                key += len(cont)
            cont, key = cont.storage(key)
        if isinstance(cont, dict):
            self.log(("item", cont, key, cont.get(key, MISSING)))
        else:
            self.log(("item", cont, key, cont[key]))
        cont[key] = val

    def list_append(self, lst, val):
        self.log(("append", lst))
        lst.append(val)

    def list_replace(self, lst, new):
        self.log(("replace", lst, list(lst)))
        lst[:] = new

    def rollback(self, log):
        for e in reversed(log):
            k = e[0]
            if k == "var":
                _, fr, n, old = e
                if old is MISSING:
                    fr.vars.pop(n, None)
                else:
                    fr.vars[n] = old
            elif k == "attr":
                _, o, n, old = e
                if old is MISSING:
                    try:
                        delattr(o, n)
                    except AttributeError:
                        pass
                else:
                    setattr(o, n, old)
            elif k == "item":
                _, c, key, old = e
                if old is MISSING:
                    del c[key]
                else:
                    c[key] = old
            elif k == "append":
                e[1].pop()
            elif k == "pop":
                e[1].append(e[2])
            elif k == "replace":
                e[1][:] = e[2]

    def written_locations(self, log, since):
        locs = {}
        for e in log:
            k = e[0]
            if k == "var":
                if e[1].serial >= since:
                    continue
                locs[("var", id(e[1]), e[2])] = e
            elif k == "attr":
                locs[("attr", id(e[1]), e[2])] = e
            elif k == "item":
                locs[("item", id(e[1]), repr(e[2]))] = e
            elif k in ("append", "pop", "replace"):
                locs[("list", id(e[1]))] = ("append", e[1])
        return locs

    def read_loc(self, e):
        k = e[0]
        if k == "var":
            return e[1].vars.get(e[2], MISSING)
        if k == "attr":
            return getattr(e[1], e[2], MISSING)
        if k == "item":
            c = e[1]
            if isinstance(c, dict):
                return c.get(e[2], MISSING)
            try:
                return c[e[2]]
            except IndexError:
                return MISSING
        if k == "append":
            return list(e[1])

    def write_loc(self, e, val):
        k = e[0]
        if k == "var":
            self.set_var(e[1], e[2], val)
        elif k == "attr":
            self.set_attr(e[1], e[2], val)
        elif k == "item":
            self.set_item(e[1], e[2], val)
        elif k == "append":
            self.list_replace(e[1], val)

    # ------------------------------------------------------------------ source access
    def get_ast(self, fn):
        fn = getattr(fn, "__func__", fn)
        if fn in self.ast_cache:
            return self.ast_cache[fn]
        try:
            src = textwrap.dedent(inspect.getsource(fn))
        except (OSError, TypeError) as ex:
            raise Unsupported("no source for %r" % (fn,))
        tree = ast.parse(src).body[0]
        self.ast_cache[fn] = tree
        self.encoded.add("%s.%s" % (fn.__module__, fn.__qualname__))
        return tree

    def interpretable(self, fn):
        fn = getattr(fn, "__func__", fn)
        if not isinstance(fn, types.FunctionType):
            return False
        f = getattr(fn.__code__, "co_filename", "")
        return any(f.startswith(r) for r in self.source_roots)

    def is_repo_class(self, cls):
        try:
            f = inspect.getsourcefile(cls)
        except (TypeError, OSError):
            return False
        return bool(f) and any(f.startswith(r) for r in self.source_roots)

    # ------------------------------------------------------------------ symbolic-ness
    def deep_symbolic(self, v, depth=0, memo=None):
        if isinstance(v, (Sym, FD, SymArray, WhereResult, SymStr, GList, SymDict, GItem)):
            return True
        if v is None or isinstance(v, (str, int, float, bool, types.ModuleType, types.FunctionType, type)):
            return False
        if depth > 4:
            return False
        if memo is None:
            memo = set()
        if id(v) in memo:
            return False
        memo.add(id(v))
        if isinstance(v, (list, tuple, set, frozenset)):
            return any(self.deep_symbolic(x, depth + 1, memo) for x in v)
        if isinstance(v, dict):
            return any(self.deep_symbolic(x, depth + 1, memo) for x in v.values())
        if getattr(v, "_symx_symbolic", False):
            return True
        if hasattr(v, "__dict__"):
            mod = getattr(type(v), "__module__", "") or ""
            if mod.startswith("localcider"):
                return any(self.deep_symbolic(x, depth + 1, memo) for x in vars(v).values())
        return False

    # ------------------------------------------------------------------ truth / boolean algebra
    def truth(self, v):
        if isinstance(v, Sym):
            if v.kind == "bool":
                return v.z
            return v.z != 0
        if isinstance(v, FD):
            gs = [g for g, x in v.cases if x]
            if not gs:
                return False
            if len(gs) == len(v.cases):
                return True
            return z3.Or(*gs) if len(gs) > 1 else gs[0]
        if isinstance(v, SymStr):
            n = self.str_len(v)
            return self.truth(self.binop(ast.Gt(), n, 0))
        if isinstance(v, SymArray):
            raise PyRaise(ValueError("The truth value of an array with more than one element is ambiguous"))
        if has_gitems(v):
            v = as_glist(v)
        if isinstance(v, GList):
            gs = [g for g, _ in v.items]
            if any(g is True for g in gs):
                return True
            gs = [zbool(g) for g in gs]
            if not gs:
                return False
            return z3.simplify(z3.Or(*gs)) if len(gs) > 1 else gs[0]
        if isinstance(v, SymDict):
            gs = [zbool(g) for g, _ in v.entries.values()]
            if not gs:
                return False
            return z3.simplify(z3.Or(*gs))
        try:
            return bool(v)
        except ValueError as ex:
            raise PyRaise(ex)

    def from_truth(self, t):
        if isinstance(t, bool):
            return t
        t = z3.simplify(t)
        if z3.is_true(t):
            return True
        if z3.is_false(t):
            return False
        return Sym(t, "bool")

    def not_(self, v):
        t = self.truth(v)
        return (not t) if isinstance(t, bool) else Sym(z3.Not(t), "bool")

    def or_(self, a, b):
        ta, tb = self.truth(a), self.truth(b)
        if ta is True or tb is True:
            return True
        if ta is False:
            return self.from_truth(tb)
        if tb is False:
            return self.from_truth(ta)
        return Sym(z3.Or(ta, tb), "bool")

    def and_(self, a, b):
        ta, tb = self.truth(a), self.truth(b)
        if ta is False or tb is False:
            return False
        if ta is True:
            return self.from_truth(tb)
        if tb is True:
            return self.from_truth(ta)
        return Sym(z3.And(ta, tb), "bool")

    def bool_to_int(self, b):
        t = self.truth(b)
        if isinstance(t, bool):
            return int(t)
        return Sym(z3.If(t, z3.IntVal(1), z3.IntVal(0)), "int")

    def canon_vals(self, g):
        """(z3 var, domain size, sorted list of values making g true) for a guard over a single finite-domain input variable"""
        if isinstance(g, bool):
            return None
        names = z3_consts(g)
        if len(names) != 1:
            return None
        (name,) = names
        dom = self.domains.get(name)
        if dom is None:
            return None
        k = g.get_id()
        hit = self._canon_cache.get(("v", k))
        if hit is not None:
            return hit[1]
        var, n = dom
        vals = [i for i in range(n) if z3.is_true(z3.simplify(z3.substitute(g, (var, z3.IntVal(i)))))]
        r = (var, n, vals)
        self._canon_cache[("v", k)] = (g, r)
        return r

    def canon(self, g):
        """canonical form of a guard over a single finite-domain input variable: Or(v == k ...) with k ascending.
        Makes cardinality terms of the implementation syntactically equal to those of specifications/constraints."""
        if isinstance(g, bool):
            return g
        names = z3_consts(g)
        if len(names) != 1:
            return g
        (name,) = names
        dom = self.domains.get(name)
        if dom is None:
            return g
        k = g.get_id()
        hit = self._canon_cache.get(k)
        if hit is not None:
            return hit[1]
        var, n = dom
        vals = [i for i in range(n) if z3.is_true(z3.simplify(z3.substitute(g, (var, z3.IntVal(i)))))]
        if not vals:
            r = False
        elif len(vals) == n:
            r = True
        else:
            r = z3.Or(*[var == i for i in vals]) if len(vals) > 1 else var == vals[0]
        self._canon_cache[k] = (g, r)
        return r

    def count_true(self, truths):
        """number of true among truth values -> int | FD | Sym"""
        truths = [self.canon(t) for t in truths]
        base = sum(1 for t in truths if t is True)
        symb = [t for t in truths if not isinstance(t, bool)]
        if not symb:
            return base
        # linear indicator terms over the per-value atoms If(v == k, 1, 0) of each finite-domain input variable
        # (all class counts then are linear combinations of the same atoms; sum_k If(v == k,1,0) == 1 is asserted with the input)
        terms = []
        for t in symb:
            cv = self.canon_vals(t)
            terms.append(lin_indicator(*cv) if cv is not None else z3.If(t, 1, 0))
        tot = z3.Sum(terms) if len(terms) > 1 else terms[0]
        if len(symb) <= 40:
            return self.prune(FD([(tot == k, base + k) for k in range(len(symb) + 1)]))
        return Sym(tot + base, "int")

    # ------------------------------------------------------------------ strings
    def chars(self, s):
        """list of 1-char items of a (Sym)str; forks when a piece has cases of several lengths"""
        if isinstance(s, str):
            return list(s)
        u = s.uniform_chars()
        if u is not None:
            return u
        out = []
        for p in s.pieces:
            if isinstance(p, str):
                out.extend(p)
                continue
            bylen = {}
            for g, v in p.cases:
                bylen.setdefault(len(v), []).append((g, v))
            chosen = None
            lens = sorted(bylen)
            for n in lens[:-1]:
                if self.branch(z3.Or(*[g for g, _ in bylen[n]])):
                    chosen = n
                    break
            if chosen is None:
                chosen = lens[-1]
                if not self.branch(z3.Or(*[g for g, _ in bylen[chosen]])):
                    raise PathInfeasible()
            cs = bylen[chosen]
            for j in range(chosen):
                out.append(mk_fd([(g, v[j]) for g, v in cs]))
        return out

    def str_len(self, s):
        if isinstance(s, str):
            return len(s)
        tot = 0
        for p in s.pieces:
            if isinstance(p, str):
                tot = self.binop(ast.Add(), tot, len(p))
            else:
                tot = self.binop(ast.Add(), tot, mk_fd([(g, len(v)) for g, v in p.cases]))
        return tot

    def str_eq_parts(self, a, b):
        """list of truth values whose conjunction is a == b (piecewise); [False] when certainly different"""
        if isinstance(a, str) and isinstance(b, str):
            return [a == b]
        A = a if isinstance(a, SymStr) else SymStr([a])
        B = b if isinstance(b, SymStr) else SymStr([b])
        ua, ub = A.uniform_chars(), B.uniform_chars()
        if ua is not None and ub is not None:
            if len(ua) != len(ub):
                return [False]
            return [self.binop(ast.Eq(), x, y) for x, y in zip(ua, ub)]
        pa, pb = self._align(A.pieces, B.pieces)
        if pa is None:
            raise Unsupported("comparison of strings with different piece structure")
        out = []
        for x, y in zip(pa, pb):
            if isinstance(x, str) and isinstance(y, str):
                if x != y:
                    return [False]
            else:
                out.append(self.fd_binop(ast.Eq, x, y))
        return out or [True]

    def str_eq(self, a, b):
        """truth value of a == b for str / SymStr"""
        if isinstance(a, str) and isinstance(b, str):
            return a == b
        A = a if isinstance(a, SymStr) else SymStr([a])
        B = b if isinstance(b, SymStr) else SymStr([b])
        ua, ub = A.uniform_chars(), B.uniform_chars()
        if ua is not None and ub is not None:
            if len(ua) != len(ub):
                return False
            r = True
            for x, y in zip(ua, ub):
                r = self.and_(r, self.binop(ast.Eq(), x, y))
                if r is False:
                    return False
            return r
        # piecewise structural comparison (sound for "equal"; "not equal" verdicts are
        # confirmed by native replay before they are reported)
        pa, pb = self._align(A.pieces, B.pieces)
        if pa is None:
            raise Unsupported("comparison of strings with different piece structure")
        r = True
        for x, y in zip(pa, pb):
            if isinstance(x, str) and isinstance(y, str):
                if x != y:
                    return False
            else:
                r = self.and_(r, self.fd_binop(ast.Eq, x, y))
                if r is False:
                    return False
        return r

    def _align(self, pa, pb):
        """split concrete pieces so that both lists have the same shape"""
        pa, pb = list(pa), list(pb)
        oa, ob = [], []
        while pa and pb:
            x, y = pa[0], pb[0]
            if isinstance(x, str) and isinstance(y, str):
                n = min(len(x), len(y))
                oa.append(x[:n]); ob.append(y[:n])
                pa[0] = x[n:]; pb[0] = y[n:]
                if not pa[0]: pa.pop(0)
                if not pb[0]: pb.pop(0)
            elif isinstance(x, FD) and isinstance(y, FD):
                oa.append(x); ob.append(y); pa.pop(0); pb.pop(0)
            else:
                fd, s, fdl, sl = (x, y, pa, pb) if isinstance(x, FD) else (y, x, pb, pa)
                lens = {len(v) for _, v in fd.cases}
                if len(lens) != 1:
                    return None, None
                n = lens.pop()
                if len(s) < n:
                    return None, None
                if isinstance(x, FD):
                    oa.append(x); ob.append(s[:n])
                else:
                    oa.append(s[:n]); ob.append(y)
                fdl.pop(0)
                sl[0] = s[n:]
                if not sl[0]: sl.pop(0)
        if pa or pb:
            # leftover: unequal unless leftovers can be empty (FD with '' cases) -> give up
            if all(isinstance(p, str) for p in pa + pb):
                oa.append("".join(pa) or ""); ob.append("".join(pb) or "")
                return oa, ob
            return None, None
        return oa, ob

    def str_method(self, s, name, args, kwargs):
        if name in ("upper", "lower", "swapcase", "casefold") and not args:
            return mk_str([getattr(p, name)() if isinstance(p, str) else mk_fd([(g, getattr(v, name)()) for g, v in p.cases])
                           for p in s.pieces])
        if name == "count" and len(args) == 1 and ((isinstance(args[0], str) and len(args[0]) == 1) or
                                                   (isinstance(args[0], FD) and all(isinstance(v, str) and len(v) == 1 for _, v in args[0].cases))):
            return self.count_true([self.truth(self.binop(ast.Eq(), c, args[0])) for c in self.chars(s)])
        if name in ("isspace", "isdigit", "isalpha", "isupper", "islower") and not args:
            cs = self.chars(s)
            if not cs:
                return False
            r = True
            for c in cs:
                t = mk_fd([(g, getattr(v, name)()) for g, v in fd_cases(c)])
                r = self.and_(r, t)
            return r
        if name in ("strip", "lstrip", "rstrip") and (args or name != "strip") and len(args) <= 1 and (not args or isinstance(args[0], str) or args[0] is None):
            # strip with an explicit character set (or one-sided): fork per boundary character
            chset = args[0] if args and args[0] is not None else None
            test = (lambda v: v in chset) if chset is not None else (lambda v: v.isspace())
            cs = self.chars(s)
            lo, hi = 0, len(cs)
            if name in ("strip", "lstrip"):
                while lo < hi:
                    t = mk_fd([(g, test(v)) for g, v in fd_cases(cs[lo])])
                    if self.branch(self.truth(t)):
                        lo += 1
                    else:
                        break
            if name in ("strip", "rstrip"):
                while hi > lo:
                    t = mk_fd([(g, test(v)) for g, v in fd_cases(cs[hi - 1])])
                    if self.branch(self.truth(t)):
                        hi -= 1
                    else:
                        break
            return mk_str(cs[lo:hi])
        if name == "replace" and len(args) == 2 and all(isinstance(a, str) for a in args) and len(args[0]) == 1:
            out = []
            for c in self.chars(s):
                if isinstance(c, FD):
                    out.append(mk_fd([(g, (args[1] if v == args[0] else v)) for g, v in c.cases]))
                else:
                    out.append(args[1] if c == args[0] else c)
            return mk_str(out)
        if name == "strip" and not args:
            cs = self.chars(s)
            lo = 0
            while lo < len(cs):
                t = mk_fd([(g, v.isspace()) for g, v in fd_cases(cs[lo])])
                if self.branch(self.truth(t)):
                    lo += 1
                else:
                    break
            hi = len(cs)
            while hi > lo:
                t = mk_fd([(g, v.isspace()) for g, v in fd_cases(cs[hi - 1])])
                if self.branch(self.truth(t)):
                    hi -= 1
                else:
                    break
            return mk_str(cs[lo:hi])
        if name == "join":
            parts = self.iterate(args[0])
            if s.is_concrete() if isinstance(s, SymStr) else True:
                sep = s.concrete() if isinstance(s, SymStr) else s
                out = []
                for i, p in enumerate(parts):
                    if i and sep:
                        out.append(sep)
                    out.append(p)
                return mk_str(out)
        if name == "encode":
            raise Unsupported("encode of symbolic string")
        if name == "__len__":
            return self.str_len(s)
        if name == "format":
            raise Unsupported("str.format on symbolic string")
        raise Unsupported("str method %s on symbolic string" % name)

    def str_format(self, fmt, args):
        """'%'-formatting with symbolic arguments; only %s / %i / %d / %N.Mf on concrete are given meaning"""
        if not isinstance(fmt, str):
            raise Unsupported("symbolic format string")
        if not isinstance(args, tuple):
            args = (args,)
        import re
        pieces = []
        pos = 0
        ai = 0
        for m in re.finditer(r"%(?:%|[-0-9.]*[sidfr])", fmt):
            pieces.append(fmt[pos:m.start()])
            pos = m.end()
            spec = m.group(0)
            if spec == "%%":
                pieces.append("%")
                continue
            if ai >= len(args):
                raise PyRaise(TypeError("not enough arguments for format string"))
            a = args[ai]
            ai += 1
            if isinstance(a, (SymStr,)):
                if spec != "%s":
                    raise PyRaise(TypeError("format %s with str" % spec))
                pieces.append(a)
            elif isinstance(a, FD):
                pieces.append(mk_fd_apply(self, lambda v: spec % (v,), a))
            elif isinstance(a, Sym):
                self.notes.add("%-formatting of a symbolic number -> opaque placeholder (message text)")
                pieces.append("<num>")
            else:
                try:
                    pieces.append(spec % (a,))
                except (TypeError, ValueError) as ex:
                    raise PyRaise(ex)
        pieces.append(fmt[pos:])
        if ai != len(args):
            raise PyRaise(TypeError("not all arguments converted during string formatting"))
        return mk_str(pieces)

    # ------------------------------------------------------------------ operations
    def fd_binop(self, t, a, b):
        if t in (ast.Eq, ast.NotEq) and isinstance(a, FD) and isinstance(b, FD) and len(a.cases) * len(b.cases) > 64:
            # equality of two finite-domain values: some value is taken by both (linear in the number of values)
            gb = {}
            for g, v in b.cases:
                gb.setdefault(_key(v), []).append(g)
            parts = []
            for g, v in a.cases:
                for g2 in gb.get(_key(v), []):
                    parts.append(z3.And(g, g2))
            eq = z3.Or(*parts) if len(parts) > 1 else (parts[0] if parts else FALSE)
            r = self.from_truth(eq)
            return self.not_(r) if t is ast.NotEq else r
        ca, cb = fd_cases(a), fd_cases(b)
        if len(ca) * len(cb) > 256:
            a = self.prune(a); b = self.prune(b)
            ca, cb = fd_cases(a), fd_cases(b)
        if len(ca) * len(cb) > FD_CROSS_LIMIT:
            return self.sym_binop(t, a, b)
        if t in (ast.Add, ast.Sub) and len(ca) * len(cb) > self.fd_add_limit and isinstance(a, FD) and isinstance(b, FD):
            # sum of independent quantities: keep the addends separate (linear sum of ite-chains)
            va, vb = a.vars(), b.vars()
            if not (va <= vb or vb <= va):
                return self.sym_binop(t, a, b)
            if any(isinstance(v, float) and not float(v).is_integer() for _, v in ca) or any(isinstance(v, float) and not float(v).is_integer() for _, v in cb):
                # accumulation of non-integral floats: keep a linear sum instead of tabulating all combinations
                return self.sym_binop(t, a, b)
        out = []
        op = PYOPS[t]
        for ga, va in ca:
            for gb, vb in cb:
                if ga is TRUE:
                    g = gb
                elif gb is TRUE:
                    g = ga
                else:
                    g = z3.And(ga, gb)
                try:
                    out.append((g, pyscalar(op(va, vb))))
                except Exception as ex:
                    self.raise_if(g, PyRaise(ex))
        return mk_fd(out)

    def binop(self, op, a, b):
        t = type(op)
        import numpy as _np
        if isinstance(a, _np.ndarray) and a.ndim == 1 and (is_sym(b) or isinstance(b, SymArray)):
            a = SymArray([pyscalar(x) for x in a], a.dtype.kind == "f")
        if isinstance(b, _np.ndarray) and b.ndim == 1 and (is_sym(a) or isinstance(a, SymArray)):
            b = SymArray([pyscalar(x) for x in b], b.dtype.kind == "f")
        if isinstance(a, list) and isinstance(b, Sym) and getattr(b, "np_scalar", False) and t in (ast.Div, ast.Mult, ast.Add, ast.Sub):
            # list <op> numpy scalar: numpy broadcasts (e.g. Hlocal / np.mean(Hlocal))
            a = SymArray(list(a))
        if t in (ast.In, ast.NotIn):
            r = self.contains(b, a)
            return self.not_(r) if t is ast.NotIn else r
        if isinstance(a, SymArray) or isinstance(b, SymArray):
            return self.array_binop(op, a, b)
        if isinstance(a, (SymStr, str)) and isinstance(b, (SymStr, str)) and (isinstance(a, SymStr) or isinstance(b, SymStr)):
            return self.str_binop(t, a, b)
        if isinstance(a, (SymStr, str)) and t is ast.Mod and (isinstance(a, SymStr) or self.deep_symbolic(b)):
            return self.str_format(a, b)
        if isinstance(a, SymStr) or isinstance(b, SymStr):
            # string with FD-of-str, or string with something else
            o = b if isinstance(a, SymStr) else a
            if isinstance(o, FD) and all(isinstance(v, str) for _, v in o.cases):
                return self.str_binop(t, a, b)
            if t is ast.Mult:
                s, n = (a, b) if isinstance(a, SymStr) else (b, a)
                n = self.concretize(n, "string repeat")
                return mk_str([s] * n)
            if t is ast.Eq:
                return False
            if t is ast.NotEq:
                return True
            raise PyRaise(TypeError("unsupported operand for str"))
        if t is ast.Add and (isinstance(a, str) or isinstance(b, str)):
            o = b if isinstance(a, str) else a
            if isinstance(o, FD) and all(isinstance(v, str) for _, v in o.cases):
                return self.str_binop(t, a, b)
        if t is ast.Add and isinstance(a, FD) and isinstance(b, FD) and all(isinstance(v, str) for _, v in a.cases) and all(isinstance(v, str) for _, v in b.cases):
            return self.str_binop(t, a, b)
        if isinstance(a, (GList, SymDict)) or isinstance(b, (GList, SymDict)):
            return self.glist_binop(t, a, b)
        if t in (ast.BitAnd, ast.BitOr) and (isinstance(a, Sym) and a.kind == "bool" or isinstance(a, bool)) and (isinstance(b, Sym) and b.kind == "bool" or isinstance(b, bool)) \
                and (isinstance(a, Sym) or isinstance(b, Sym)):
            return self.and_(a, b) if t is ast.BitAnd else self.or_(a, b)
        if not is_sym(a) and not is_sym(b):
            if t in CMP and (isinstance(a, (list, tuple)) or isinstance(b, (list, tuple))) and \
                    (self.deep_symbolic(a) or self.deep_symbolic(b)):
                return self.seq_compare(t, a, b)
            if t is ast.Add and isinstance(a, list) and isinstance(b, list):
                return a + b
            try:
                return PYOPS[t](a, b)
            except CONTROL:
                raise
            except Exception as ex:
                raise PyRaise(ex)
        if isinstance(a, Sym) or isinstance(b, Sym):
            return self.sym_binop(t, a, b)
        return self.fd_binop(t, a, b)

    def seq_compare(self, t, a, b):
        if t not in (ast.Eq, ast.NotEq):
            raise Unsupported("ordering of symbolic sequences")
        if type(a) is not type(b) or len(a) != len(b):
            r = False
        else:
            r = True
            for x, y in zip(a, b):
                r = self.and_(r, self.binop(ast.Eq(), x, y))
        return self.not_(r) if t is ast.NotEq else r

    def glist_binop(self, t, a, b):
        if t is ast.Sub and isinstance(a, GList) and isinstance(b, (set, frozenset, list, tuple)) and not self.deep_symbolic(b):
            g = GList([(gd, v) for gd, v in a.items if is_sym(v) or v not in b])
            g.is_set = getattr(a, "is_set", False)
            return g
        if t in (ast.Eq, ast.NotEq):
            # only comparison with [] / {} is given meaning
            other = b if isinstance(a, (GList, SymDict)) else a
            me = a if isinstance(a, (GList, SymDict)) else b
            if isinstance(other, (list, dict)) and len(other) == 0:
                r = self.not_(self.from_truth(self.truth(me)))
                return self.not_(r) if t is ast.NotEq else r
        raise Unsupported("operation %s on guarded container" % t.__name__)

    def array_binop(self, op, a, b):
        if isinstance(a, SymArray) and isinstance(b, SymArray):
            if len(a) != len(b) and 1 not in (len(a), len(b)):
                raise PyRaise(ValueError("operands could not be broadcast together"))
            if len(a) == len(b):
                return SymArray([self.binop(op, x, y) for x, y in zip(a.items, b.items)])
        if isinstance(a, SymArray):
            if isinstance(b, (list, tuple)):
                if len(b) == 0 and type(op) in (ast.Eq, ast.NotEq):
                    # numpy: array == [] -> broadcasting error (numpy >= 2) unless shapes agree
                    if len(a) == 0:
                        return SymArray([])
                    if len(a) == 1:
                        return SymArray([])
                    raise PyRaise(ValueError("operands could not be broadcast together with shapes (%d,) (0,)" % len(a)))
                if len(b) != len(a):
                    raise PyRaise(ValueError("operands could not be broadcast together"))
                return SymArray([self.binop(op, x, y) for x, y in zip(a.items, b)])
            return SymArray([self.binop(op, x, b) for x in a.items])
        if isinstance(a, (list, tuple)):
            return self.array_binop(op, SymArray(list(a)), b)
        return SymArray([self.binop(op, a, y) for y in b.items])

    def str_binop(self, t, a, b):
        if t is ast.Add:
            return mk_str([a, b])
        if t in (ast.Eq, ast.NotEq):
            fa = isinstance(a, FD)
            fb = isinstance(b, FD)
            if fa or fb:
                a2 = SymStr([a]) if not isinstance(a, SymStr) else a
                b2 = SymStr([b]) if not isinstance(b, SymStr) else b
                r = self.str_eq(a2, b2)
            else:
                r = self.str_eq(a, b)
            r = self.from_truth(self.truth(r)) if not isinstance(r, bool) else r
            return self.not_(r) if t is ast.NotEq else r
        if t is ast.Mod:
            return self.str_format(a, b)
        raise Unsupported("string op %s" % t.__name__)

    def fp_binop(self, t, a, b):
        """IEEE binary64 / bit-vector integer mode (composition-level encodings)"""
        F64 = z3.Float64()
        RNE = z3.RNE()

        def lift(x, other):
            if x.kind in ("bv", "fp"):
                return x
            z = z3.simplify(x.z)
            if x.kind == "int" and z3.is_int_value(z):
                if other.kind == "bv":
                    return Sym(z3.BitVecVal(z.as_long(), other.z.size()), "bv")
                return Sym(z3.FPVal(float(z.as_long()), F64), "fp")
            if x.kind == "real" and z3.is_rational_value(z):
                fr = z.as_fraction()
                fl = float(fr)
                from fractions import Fraction
                if Fraction(fl) != fr:
                    raise Unsupported("non-double constant in fp mode")
                return Sym(z3.FPVal(fl, F64), "fp")
            raise Unsupported("mixing symbolic %s with fp/bv" % x.kind)

        def tofp(x):
            return x.z if x.kind == "fp" else z3.fpSignedToFP(RNE, x.z, F64)
        a2, b2 = lift(a, b), lift(b, a)
        if a2.kind == b2.kind == "bv":
            x, y = a2.z, b2.z
            if t in CMP:
                z = {ast.Eq: lambda: x == y, ast.NotEq: lambda: x != y, ast.Lt: lambda: x < y, ast.LtE: lambda: x <= y,
                     ast.Gt: lambda: x > y, ast.GtE: lambda: x >= y}[t]()
                return Sym(z, "bool")
            if t is ast.Add:
                return Sym(x + y, "bv")
            if t is ast.Sub:
                return Sym(x - y, "bv")
            if t is ast.Mult:
                return Sym(x * y, "bv")
            if t is not ast.Div:
                raise Unsupported("bv op %s" % t.__name__)
        x, y = tofp(a2), tofp(b2)
        if t in CMP:
            z = {ast.Eq: lambda: z3.fpEQ(x, y), ast.NotEq: lambda: z3.Not(z3.fpEQ(x, y)), ast.Lt: lambda: z3.fpLT(x, y),
                 ast.LtE: lambda: z3.fpLEQ(x, y), ast.Gt: lambda: z3.fpGT(x, y), ast.GtE: lambda: z3.fpGEQ(x, y)}[t]()
            return Sym(z, "bool")
        if t is ast.Add:
            return Sym(z3.fpAdd(RNE, x, y), "fp")
        if t is ast.Sub:
            return Sym(z3.fpSub(RNE, x, y), "fp")
        if t is ast.Mult:
            return Sym(z3.fpMul(RNE, x, y), "fp")
        if t is ast.Div:
            zero = z3.fpIsZero(y)
            self.raise_if(zero, PyRaise(ZeroDivisionError("float division by zero")))
            return Sym(z3.fpDiv(RNE, x, y), "fp")
        if t is ast.Pow:
            bz = z3.simplify(b.z) if b.kind in ("int", "real") else None
            if bz is not None and ((z3.is_int_value(bz) and bz.as_long() == 2) or (z3.is_rational_value(bz) and bz.as_fraction() == 2)):
                return Sym(z3.fpMul(RNE, x, x), "fp")
        raise Unsupported("fp op %s" % t.__name__)

    def lift(self, v):
        """Sym of a numeric FD; when all guards speak about one finite-domain input variable the result is written over the
        per-value atoms If(var == k, 1, 0) (linear: sums over residues then reduce to class counts by linear arithmetic)"""
        if not isinstance(v, FD):
            return to_sym(v)
        try:
            kinds = {kind_of_py(x) for _, x in v.cases}
            if None in kinds or kinds == {"bool"}:
                return to_sym(v)
            var = None
            n = None
            tab = {}
            for g, x in v.cases:
                cv = self.canon_vals(g) if not isinstance(g, bool) else None
                if cv is None:
                    return to_sym(v)
                if var is None:
                    var, n = cv[0], cv[1]
                elif not var.eq(cv[0]):
                    return to_sym(v)
                for k in cv[2]:
                    tab[k] = pyscalar(x)
            if var is None or len(tab) != n:
                return to_sym(v)
            real = "real" in kinds
            terms = []
            for k in range(n):
                x = tab[k]
                if x == 0:
                    continue
                atom = z3.If(var == k, 1, 0)
                terms.append((z3val(float(x)) * z3.ToReal(atom)) if real else (z3.IntVal(int(x)) * atom))
            zero = z3.RealVal(0) if real else z3.IntVal(0)
            z = z3.Sum(terms) if len(terms) > 1 else (terms[0] if terms else zero)
            return Sym(z, "real" if real else "int")
        except Unsupported:
            return to_sym(v)

    def sym_binop(self, t, a, b):
        if t in (ast.Add, ast.Sub):
            a, b = self.lift(a), self.lift(b)
        else:
            a, b = to_sym(a), to_sym(b)
        if a.kind in ("bv", "fp") or b.kind in ("bv", "fp"):
            return self.fp_binop(t, a, b)
        if t in CMP and (getattr(a, "frac", None) is not None) != (getattr(b, "frac", None) is not None):
            # quotient by a symbolic term compared with a constant: num/den <op> c  <=>  num <op> c*den  when den > 0 (keeps the query linear)
            q, o, flip = (a, b, False) if getattr(a, "frac", None) is not None else (b, a, True)
            oz = z3.simplify(as_real(o))
            if z3.is_rational_value(oz):
                num, den = q.frac
                if not self.feasible(den <= 0):
                    lhs, rhs = num, oz * den
                    if flip:
                        lhs, rhs = rhs, lhs
                    z = {ast.Eq: lambda: lhs == rhs, ast.NotEq: lambda: lhs != rhs, ast.Lt: lambda: lhs < rhs, ast.LtE: lambda: lhs <= rhs,
                         ast.Gt: lambda: lhs > rhs, ast.GtE: lambda: lhs >= rhs}[t]()
                    return Sym(z, "bool")
        if t in CMP:
            if a.kind == "real" or b.kind == "real":
                x, y = as_real(a), as_real(b)
            elif a.kind == "bool" and b.kind == "bool":
                x, y = a.z, b.z
                if t not in (ast.Eq, ast.NotEq):
                    x, y = as_int(a), as_int(b)
            else:
                x, y = as_int(a), as_int(b)
            z = {ast.Eq: lambda: x == y, ast.NotEq: lambda: x != y, ast.Lt: lambda: x < y, ast.LtE: lambda: x <= y,
                 ast.Gt: lambda: x > y, ast.GtE: lambda: x >= y}[t]()
            return Sym(z, "bool")
        if t is ast.Pow and self.uf is not None:
            bz0 = z3.simplify(b.z)
            if z3.is_rational_value(bz0) and bz0.as_fraction() == Fraction(1, 2):
                return Sym(self.uf.sqrt(self, as_real(a)), "real")
        if t is ast.Pow:
            bz = z3.simplify(b.z)
            if z3.is_int_value(bz):
                n = bz.as_long()
                if n >= 0:
                    real = a.kind == "real"
                    x = as_real(a) if real else as_int(a)
                    acc = z3.RealVal(1) if real else z3.IntVal(1)
                    for _ in range(n):
                        acc = acc * x
                    return Sym(acc, "real" if real else "int")
            raise Unsupported("symbolic power")
        realish = a.kind == "real" or b.kind == "real" or t is ast.Div
        if realish:
            x, y = as_real(a), as_real(b)
            if t is ast.Add:
                return Sym(x + y, "real")
            if t is ast.Sub:
                return Sym(x - y, "real")
            if t is ast.Mult:
                return Sym(x * y, "real")
            if t is ast.Div and self.pow10 is not None:
                q = self.pow10.reciprocal(self, x, y)
                if q is not None:
                    return Sym(q, "real")
            if t is ast.Div:
                ys = z3.simplify(y)
                if z3.is_rational_value(ys):
                    if ys.as_fraction() == 0:
                        raise PyRaise(ZeroDivisionError("division by zero"))
                else:
                    self.raise_if(y == 0, PyRaise(ZeroDivisionError("division by zero")))
                    return Sym(x / y, "real", frac=(x, y))
                return Sym(x / y, "real")
            raise Unsupported("real op %s" % t.__name__)
        x, y = as_int(a), as_int(b)
        if t is ast.Add:
            return Sym(x + y, "int")
        if t is ast.Sub:
            return Sym(x - y, "int")
        if t is ast.Mult:
            return Sym(x * y, "int")
        if t in (ast.FloorDiv, ast.Mod):
            ys = z3.simplify(y)
            if not (z3.is_int_value(ys) and ys.as_long() > 0):
                if self.feasible(y <= 0):
                    if self.branch(y == 0):
                        raise PyRaise(ZeroDivisionError("integer division or modulo by zero"))
                    if self.branch(y < 0):
                        raise Unsupported("floor division by a negative symbolic integer")
            return Sym(x / y, "int") if t is ast.FloorDiv else Sym(x % y, "int")
        raise Unsupported("int op %s" % t.__name__)

    def any_eq(self, x, items):
        acc = False
        for it in items:
            acc = self.or_(acc, self.binop(ast.Eq(), x, it))
            if acc is True:
                return True
        return acc

    def contains(self, container, x):
        if isinstance(container, FD):
            return mk_fd_apply(self, lambda c: self.contains(c, x), container)
        if has_gitems(container):
            container = as_glist(container)
        if isinstance(container, GList):
            acc = False
            for g, it in container.items:
                acc = self.or_(acc, self.and_(self.from_truth(g), self.binop(ast.Eq(), x, it)))
            return acc
        if isinstance(container, SymDict):
            if is_sym(x):
                acc = False
                for k, (g, _) in container.entries.items():
                    acc = self.or_(acc, self.and_(self.from_truth(g), self.binop(ast.Eq(), x, k)))
                return acc
            if x in container.entries:
                return self.from_truth(container.entries[x][0])
            return False
        if isinstance(container, SymStr):
            if isinstance(x, SymStr):
                raise Unsupported("substring test on symbolic strings")
            if isinstance(x, str) and len(x) != 1:
                if x == "":
                    return True
                raise Unsupported("substring test on symbolic string")
            return self.any_eq(x, self.chars(container))
        if isinstance(container, SymArray):
            return self.any_eq(x, container.items)
        if isinstance(container, str):
            if isinstance(x, FD):
                return mk_fd([(g, (v in container)) for g, v in x.cases])
            if isinstance(x, SymStr):
                cs = x.uniform_chars()
                if cs is not None and len(cs) == 1:
                    return self.contains(container, cs[0])
                raise Unsupported("symbolic string in str")
            try:
                return x in container
            except TypeError as ex:
                raise PyRaise(ex)
        if isinstance(container, (list, tuple, set, frozenset, dict)) or hasattr(container, "keys"):
            items = list(container)
            if not is_sym(x) and not isinstance(x, SymStr) and not any(self.deep_symbolic(i) for i in items):
                try:
                    return x in container
                except TypeError as ex:
                    raise PyRaise(ex)
            if isinstance(x, FD) and not any(self.deep_symbolic(i) for i in items):
                out = []
                for g, v in x.cases:
                    try:
                        out.append((g, v in container))
                    except TypeError as ex:
                        if self.feasible(g) and self.branch(g):
                            raise PyRaise(ex)
                return mk_fd(out)
            if isinstance(x, SymStr):
                cs = x.uniform_chars()
                if cs is not None and len(cs) == 1 and all(isinstance(i, str) for i in items):
                    return self.contains(container, cs[0])
                acc = False
                for it in items:
                    if isinstance(it, (str, SymStr)):
                        acc = self.or_(acc, self.from_truth(self.truth(self.str_eq(x, it))) if not isinstance(self.str_eq(x, it), bool) else self.str_eq(x, it))
                return acc
            return self.any_eq(x, items)
        try:
            return x in container
        except TypeError as ex:
            raise PyRaise(ex)

    def merge(self, g, a, b):
        """value equal to a when g else b"""
        if a is b:
            return a
        import numpy as np
        if isinstance(a, np.ndarray) and a.ndim == 1:
            a = SymArray([pyscalar(x) for x in a], a.dtype.kind == "f")
        if isinstance(b, np.ndarray) and b.ndim == 1:
            b = SymArray([pyscalar(x) for x in b], b.dtype.kind == "f")
        a = pyscalar(a); b = pyscalar(b)
        if isinstance(a, (SymStr, str)) and isinstance(b, (SymStr, str)):
            if isinstance(a, str) and isinstance(b, str):
                if a == b:
                    return a
                if len(a) == len(b) and len(a) > 1:
                    return mk_str([mk_fd([(g, x), (z3.Not(g), y)]) if x != y else x for x, y in zip(a, b)])
                return mk_str([mk_fd([(g, a), (z3.Not(g), b)])])
            ca = a.uniform_chars() if isinstance(a, SymStr) else list(a)
            cb = b.uniform_chars() if isinstance(b, SymStr) else list(b)
            if ca is None or cb is None or len(ca) != len(cb):
                raise MergeAbort("string shape")
            return mk_str([self.merge(g, x, y) for x, y in zip(ca, cb)])
        if not is_sym(a) and not is_sym(b) and not isinstance(a, (list, SymArray, dict, GList, SymDict, tuple)):
            try:
                if type(a) is type(b) and a == b:
                    return a
            except Exception:
                pass
        if isinstance(a, SymArray) and isinstance(b, SymArray):
            if len(a) != len(b):
                raise MergeAbort("array length")
            return SymArray([self.merge(g, x, y) for x, y in zip(a.items, b.items)], a.isfloat or b.isfloat)
        if isinstance(a, list) and isinstance(b, list):
            if len(a) != len(b):
                # guarded append: one list extends the other
                def gi(gg, x):
                    if isinstance(x, GItem):
                        return GItem(z3.And(gg, zbool(x.g)), x.v)
                    return GItem(gg, x)
                if len(a) > len(b) and all(x is y for x, y in zip(a, b)):
                    return list(b) + [gi(g, x) for x in a[len(b):]]
                if len(b) > len(a) and all(x is y for x, y in zip(a, b)):
                    return list(a) + [gi(z3.Not(g), x) for x in b[len(a):]]
                raise MergeAbort("list length")
            if has_gitems(a) or has_gitems(b):
                if all(x is y for x, y in zip(a, b)):
                    return a
                raise MergeAbort("guarded list contents")
            return [self.merge(g, x, y) for x, y in zip(a, b)]
        if isinstance(a, tuple) and isinstance(b, tuple) and len(a) == len(b):
            return tuple(self.merge(g, x, y) for x, y in zip(a, b))
        if isinstance(a, dict) and isinstance(b, dict) and list(a.keys()) == list(b.keys()):
            return {k: self.merge(g, a[k], b[k]) for k in a}
        if isinstance(a, Sym) and isinstance(b, (Sym, int, float)) and a.kind in ("real", "int") and z3.is_app(a.z) and a.z.decl().kind() == z3.Z3_OP_ADD:
            # accumulation pattern `if g: acc = term + acc`: keep the sum flat: acc + If(g, term, 0)
            b2 = to_sym(b)
            if b2.kind in ("real", "int"):
                ch = a.z.children()
                bz = as_real(b2) if a.kind == "real" else (as_int(b2) if b2.kind != "real" else None)
                if bz is not None:
                    for i, c in enumerate(ch):
                        if c.eq(bz):
                            rest = ch[:i] + ch[i + 1:]
                            if rest:
                                term = rest[0] if len(rest) == 1 else z3.Sum(rest)
                                zero = z3.RealVal(0) if a.kind == "real" else z3.IntVal(0)
                                return Sym(bz + z3.If(g, term, zero), a.kind)
        if isinstance(a, Sym) or isinstance(b, Sym):
            a2, b2 = to_sym(a), to_sym(b)
            if a2.kind == b2.kind and a2.kind in ("bv", "fp"):
                return Sym(z3.If(g, a2.z, b2.z), a2.kind)
            if a2.kind in ("bv", "fp") or b2.kind in ("bv", "fp"):
                raise MergeAbort("mixed fp/bv merge")
            if a2.kind == b2.kind == "bool":
                return Sym(z3.If(g, a2.z, b2.z), "bool")
            if a2.kind == "real" or b2.kind == "real":
                return Sym(z3.If(g, as_real(a2), as_real(b2)), "real")
            return Sym(z3.If(g, as_int(a2), as_int(b2)), "int")
        ca, cb = fd_cases(a), fd_cases(b)
        for _, v in ca + cb:
            if isinstance(v, (list, dict, set, SymArray, GList, SymDict, SymStr)) or (hasattr(v, "__dict__") and not isinstance(v, type) and self.deep_symbolic(v)):
                raise MergeAbort("cannot merge %s" % type(v).__name__)
        ng = z3.Not(g)
        return mk_fd([(z3.And(g, x) if x is not TRUE else g, v) for x, v in ca] +
                     [(z3.And(ng, x) if x is not TRUE else ng, v) for x, v in cb])

    # ------------------------------------------------------------------ calls
    def call(self, fn, args, kwargs):
        stub = None
        try:
            stub = self.stubs.get(fn)
        except TypeError:
            stub = None
        if stub is None and hasattr(fn, "__func__"):
            try:
                stub = self.stubs.get(fn.__func__)
                if stub is not None:
                    args = [fn.__self__] + list(args)
            except TypeError:
                stub = None
        if stub is not None:
            return stub(self, *args, **kwargs)
        if isinstance(fn, InterpFunc):
            return self.call_closure(fn, args, kwargs)
        if isinstance(fn, SymMethod):
            return self.call_symmethod(fn, args, kwargs)
        if isinstance(fn, type) and issubclass(fn, BaseException):
            return fn(*[("<sym>" if self.deep_symbolic(a) else a) for a in args])
        if isinstance(fn, type) and self.is_repo_class(fn):
            symbolic = any(self.deep_symbolic(a) for a in args) or any(self.deep_symbolic(a) for a in kwargs.values())
            init = fn.__init__
            if (symbolic or fn.__name__ in self.force_interp) and self.interpretable(init):
                obj = fn.__new__(fn)
                self.call_interp(init, [obj] + list(args), kwargs, cls=self.defining_class(init, fn))
                return obj
            if symbolic:
                raise Unsupported("constructor %s with symbolic args" % fn.__name__)
        bound_self = getattr(fn, "__self__", None)
        if isinstance(bound_self, types.ModuleType):
            bound_self = None
        if (bound_self is not None and getattr(bound_self, "_symx_call_native", False)) or getattr(fn, "_symx_call_native", False):
            return fn(*args, **kwargs)
        symbolic = any(self.deep_symbolic(a) for a in args) or any(self.deep_symbolic(a) for a in kwargs.values()) \
            or (bound_self is not None and self.deep_symbolic(bound_self))
        if self.interpretable(fn) and (symbolic or getattr(fn, "__name__", "") in self.force_interp):
            f = getattr(fn, "__func__", fn)
            a = ([bound_self] if bound_self is not None else []) + list(args)
            cls = None
            if bound_self is not None:
                cls = bound_self if isinstance(bound_self, type) else type(bound_self)
            return self.call_interp(f, a, kwargs, cls=self.defining_class(f, cls))
        if symbolic:
            from . import models
            return models.call_model(self, fn, args, kwargs)
        self.stats["native_calls"] += 1
        try:
            return fn(*args, **kwargs)
        except CONTROL:
            raise
        except Exception as e:
            raise PyRaise(e)

    def defining_class(self, f, cls):
        qn = f.__qualname__.split(".")
        if cls is None:
            if len(qn) >= 2 and qn[-2] != "<locals>":
                c = f.__globals__.get(qn[-2])
                if isinstance(c, type):
                    return c
            return None
        if len(qn) >= 2:
            for k in cls.__mro__:
                if k.__name__ == qn[-2]:
                    return k
        return cls

    def bind_args(self, frame, a, f_defaults, f_kwdefaults, args, kwargs, name):
        params = [p.arg for p in a.posonlyargs + a.args]
        defaults = f_defaults or ()
        args = list(args)
        if len(args) > len(params):
            if a.vararg:
                frame.vars[a.vararg.arg] = tuple(args[len(params):])
                args = args[:len(params)]
            else:
                raise PyRaise(TypeError("%s() takes %d positional arguments but %d were given" % (name, len(params), len(args))))
        elif a.vararg:
            frame.vars[a.vararg.arg] = ()
        kw = dict(kwargs)
        for i, p in enumerate(params):
            if i < len(args):
                if p in kw:
                    raise PyRaise(TypeError("%s() got multiple values for argument %r" % (name, p)))
                frame.vars[p] = args[i]
            elif p in kw:
                frame.vars[p] = kw.pop(p)
            else:
                di = i - (len(params) - len(defaults))
                if di < 0:
                    raise PyRaise(TypeError("%s() missing required argument %r" % (name, p)))
                frame.vars[p] = defaults[di]
        for p in a.kwonlyargs:
            if p.arg in kw:
                frame.vars[p.arg] = kw.pop(p.arg)
            elif f_kwdefaults and p.arg in f_kwdefaults:
                frame.vars[p.arg] = f_kwdefaults[p.arg]
            else:
                raise PyRaise(TypeError("missing kw-only argument %r" % p.arg))
        if kw:
            if a.kwarg:
                frame.vars[a.kwarg.arg] = kw
            else:
                raise PyRaise(TypeError("%s() got an unexpected keyword argument %r" % (name, next(iter(kw)))))
        elif a.kwarg:
            frame.vars[a.kwarg.arg] = {}

    def call_interp(self, f, args, kwargs, cls=None):
        self.stats["interp_calls"] += 1
        tree = self.get_ast(f)
        if not isinstance(tree, ast.FunctionDef):
            raise Unsupported("not a plain function: %r" % (f,))
        frame = Frame(f, f.__globals__, cls)
        # NB: f.__defaults__ are the *real* default objects (shared mutable defaults preserved)
        self.bind_args(frame, tree.args, f.__defaults__, f.__kwdefaults__, args, kwargs, f.__name__)
        try:
            self.exec_block(tree.body, frame)
        except ReturnEx as r:
            return r.v
        return None

    def call_closure(self, fn, args, kwargs):
        node = fn.node
        frame = Frame(fn, fn.frame.globs, fn.frame.cls, parent=fn.frame)
        if isinstance(node, ast.Lambda):
            self.bind_args(frame, node.args, fn.defaults, None, args, kwargs, "<lambda>")
            return self.eval(node.body, frame)
        self.bind_args(frame, node.args, fn.defaults, None, args, kwargs, node.name)
        try:
            self.exec_block(node.body, frame)
        except ReturnEx as r:
            return r.v
        return None

    def call_symmethod(self, m, args, kwargs):
        r = m.recv
        name = m.name
        if isinstance(r, SymStr):
            return self.str_method(r, name, args, kwargs)
        if isinstance(r, FD):
            if any(self.deep_symbolic(a) for a in args):
                if all(isinstance(v, str) for _, v in r.cases):
                    return self.str_method(SymStr([r]), name, args, kwargs)
                raise Unsupported("method %s with symbolic args on FD" % name)

            def ap(v):
                try:
                    return getattr(v, name)(*args, **kwargs)
                except CONTROL:
                    raise
                except Exception as e:
                    raise PyRaise(e)
            return mk_fd_apply(self, ap, r)
        from . import models
        return models.call_method_model(self, r, name, args, kwargs)

    # ------------------------------------------------------------------ statements
    def exec_block(self, stmts, fr):
        for s in stmts:
            self.exec_stmt(s, fr)

    def exec_stmt(self, s, fr):
        m = getattr(self, "st_" + type(s).__name__, None)
        if m is None:
            raise Unsupported("statement %s" % type(s).__name__)
        return m(s, fr)

    def st_Expr(self, s, fr):
        self.eval(s.value, fr)

    def st_Pass(self, s, fr):
        pass

    def st_Return(self, s, fr):
        raise ReturnEx(self.eval(s.value, fr) if s.value else None)

    def st_Break(self, s, fr):
        raise BreakEx()

    def st_Continue(self, s, fr):
        raise ContinueEx()

    def st_Import(self, s, fr):
        for a in s.names:
            mod = __import__(a.name)
            if a.asname:
                import importlib
                mod = importlib.import_module(a.name)
            self.set_var(fr, a.asname or a.name.split(".")[0], mod)

    def st_ImportFrom(self, s, fr):
        import importlib
        pkg = fr.globs.get("__package__")
        try:
            mod = importlib.import_module("." * s.level + (s.module or ""), pkg) if s.level else importlib.import_module(s.module)
        except ImportError as ex:
            raise PyRaise(ex)
        for a in s.names:
            try:
                self.set_var(fr, a.asname or a.name, getattr(mod, a.name))
            except AttributeError:
                raise PyRaise(ImportError(a.name))

    def st_FunctionDef(self, s, fr):
        f = InterpFunc(s, fr)
        f.defaults = tuple(self.eval(d, fr) for d in s.args.defaults)
        self.set_var(fr, s.name, f)

    def st_Global(self, s, fr):
        fr.vars.setdefault("__globals_decl__", set()).update(s.names)

    def st_Delete(self, s, fr):
        raise Unsupported("del statement")

    def st_Assign(self, s, fr):
        v = self.eval(s.value, fr)
        for t in s.targets:
            self.assign(t, v, fr)

    def st_AnnAssign(self, s, fr):
        if s.value is not None:
            self.assign(s.target, self.eval(s.value, fr), fr)

    def st_AugAssign(self, s, fr):
        t = s.target
        if isinstance(t, ast.Subscript) and not isinstance(t.slice, ast.Slice):
            c = self.eval(t.value, fr)
            k = self.eval(t.slice, fr)
            val = self.eval(s.value, fr)
            if isinstance(k, FD) and isinstance(c, (dict, list, SymArray)):
                for g, kk in k.cases:
                    try:
                        old = c.items[kk] if isinstance(c, SymArray) else c[kk]
                    except (KeyError, IndexError) as ex:
                        if self.feasible(g) and self.branch(g):
                            raise PyRaise(ex)
                        continue
                    self.set_item(c, kk, self.merge(g, self.binop(s.op, old, val), old))
                return
            cur = self.subscript(c, k)
            self.store_subscript(c, k, self.binop(s.op, cur, val))
            return
        if isinstance(t, ast.Attribute):
            o = self.eval(t.value, fr)
            name = self.mangle(t.attr, fr)
            cur = self.getattr_(o, name)
            self.set_attr(o, name, self.binop(s.op, cur, self.eval(s.value, fr)))
            return
        cur = self.eval(self.load_of(t), fr)
        v = self.binop(s.op, cur, self.eval(s.value, fr))
        self.assign(t, v, fr)

    def load_of(self, t):
        if isinstance(t, ast.Name):
            return ast.Name(id=t.id, ctx=ast.Load())
        raise Unsupported("augassign target")

    def assign(self, t, v, fr):
        if isinstance(t, ast.Name):
            if t.id in fr.vars.get("__globals_decl__", ()):
                self.log(("item", fr.globs, t.id, fr.globs.get(t.id, MISSING)))
                fr.globs[t.id] = v
            else:
                self.set_var(fr, t.id, v)
        elif isinstance(t, ast.Attribute):
            self.set_attr(self.eval(t.value, fr), self.mangle(t.attr, fr), v)
        elif isinstance(t, ast.Subscript):
            c = self.eval(t.value, fr)
            if isinstance(t.slice, ast.Slice):
                lo = self.concretize(self.eval(t.slice.lower, fr)) if t.slice.lower else None
                hi = self.concretize(self.eval(t.slice.upper, fr)) if t.slice.upper else None
                if t.slice.step is not None:
                    raise Unsupported("extended slice assignment")
                if not isinstance(c, list):
                    raise Unsupported("slice assignment on %s" % type(c).__name__)
                new = list(c)
                new[lo:hi] = list(v.items if isinstance(v, SymArray) else v)
                self.list_replace(c, new)
                return
            k = self.eval(t.slice, fr)
            self.store_subscript(c, k, v)
        elif isinstance(t, (ast.Tuple, ast.List)):
            if isinstance(v, SymArray):
                vals = v.items
            elif isinstance(v, SymStr):
                vals = self.chars(v)
            else:
                vals = list(v)
            if len(vals) != len(t.elts):
                raise PyRaise(ValueError("unpack length mismatch"))
            for tt, vv in zip(t.elts, vals):
                self.assign(tt, vv, fr)
        else:
            raise Unsupported("assign target %s" % type(t).__name__)

    def store_subscript(self, c, k, v):
        if isinstance(c, SymArray) and isinstance(k, SymArray):
            # boolean-mask assignment a[mask] = scalar
            if len(k) != len(c):
                raise PyRaise(IndexError("boolean index did not match indexed array"))
            if isinstance(v, (SymArray, list, tuple)):
                raise Unsupported("mask assignment of an array value")
            if c.isfloat and isinstance(v, (int, bool)) and not isinstance(v, float):
                v = float(v)
            for i, mk in enumerate(k.items):
                t = self.truth(mk)
                if isinstance(t, bool):
                    if t:
                        self.set_item(c, i, v)
                else:
                    self.set_item(c, i, self.merge(t, v, c.items[i]))
            return
        if isinstance(c, SymDict):
            if is_sym(k):
                raise Unsupported("symbolic key store into guarded dict")
            self.log(("item", c.entries, k, c.entries.get(k, MISSING)))
            c.entries[k] = (True, v)
            return
        if isinstance(k, FD):
            for g, kk in k.cases:
                try:
                    old = c.items[kk] if isinstance(c, SymArray) else c[kk]
                except KeyError:
                    raise Unsupported("symbolic key insertion into dict")
                except IndexError as ex:
                    if self.feasible(g) and self.branch(g):
                        raise PyRaise(ex)
                    continue
                self.set_item(c, kk, self.merge(g, v, old))
            return
        if isinstance(k, Sym):
            if k.kind != "int":
                raise Unsupported("non-int symbolic index")
            if isinstance(c, (list, SymArray)):
                n = len(c)
                inr = z3.And(k.z >= -n, k.z < n)
                self.raise_if(z3.Not(inr), PyRaise(IndexError("list assignment index out of range")))
                items = c.items if isinstance(c, SymArray) else c
                for i in range(n):
                    g = z3.Or(k.z == i, k.z == i - n)
                    self.set_item(c, i, self.merge(g, v, items[i]))
                return
            k = self.concretize(k, "index")
        if isinstance(c, SymArray) and c.isfloat and isinstance(v, (int, bool)) and not isinstance(v, float):
            v = float(v)
        try:
            if isinstance(c, (dict, list, SymArray)):
                self.set_item(c, k, v)
            else:
                c[k] = v
        except (IndexError, KeyError, TypeError) as ex:
            raise PyRaise(ex)

    def st_If(self, s, fr):
        c = self.truth(self.eval(s.test, fr))
        if isinstance(c, bool):
            return self.exec_block(s.body if c else s.orelse, fr)
        c = z3.simplify(c)
        if z3.is_true(c):
            return self.exec_block(s.body, fr)
        if z3.is_false(c):
            return self.exec_block(s.orelse, fr)
        ft = self.feasible(c)
        ff = self.feasible(z3.Not(c))
        if ft and not ff:
            self.assume(c)
            return self.exec_block(s.body, fr)
        if ff and not ft:
            self.assume(z3.Not(c))
            return self.exec_block(s.orelse, fr)
        if not ft and not ff:
            raise PathInfeasible()
        if not self.no_merge:
            try:
                if self.try_merge(c, s.body, s.orelse, fr):
                    return
            finally:
                self.flush_deferred()
        b = self.branch(c)
        return self.exec_block(s.body if b else s.orelse, fr)

    def run_branch_logged(self, g, body, fr):
        outer = self.undo
        since = next(_serial)
        log = []
        self.undo = log
        self.in_merge += 1
        self.solver.push()
        self.solver.add(g)
        self.merge_guards.append(g)
        npc = len(self.pc)
        nside, ndef = len(self.side), len(self.deferred)
        ok = True
        try:
            self.exec_block(body, fr)
        except ReturnEx as r:
            ok = ("return", r.v)
        except PyRaise as ex:
            if self.side_raises and self.try_depth == 0:
                ok = ("vacuous", ex)
            else:
                ok = False
        except (BreakEx, ContinueEx, MergeAbort) as ex:
            if DEBUG:
                print("  merge abort:", type(ex).__name__, ex)
            ok = False
        except PathInfeasible:
            ok = False
        finally:
            self.solver.pop()
            self.merge_guards.pop()
            del self.pc[npc:]
            self.in_merge -= 1
            self.undo = outer
            if self.in_merge > 0 and ok is not False and not (isinstance(ok, tuple) and ok[0] == "vacuous"):
                # facts recorded inside the branch (in guarded form) stay visible in the enclosing scope
                for d_ in self.deferred[ndef:]:
                    self.solver.add(d_)
        if ok is False or (isinstance(ok, tuple) and ok[0] == "vacuous"):
            # nothing recorded during an abandoned / always-raising attempt survives (it is re-derived when re-executed)
            del self.side[nside:]
            del self.deferred[ndef:]
        finals = None
        if ok and not (isinstance(ok, tuple) and ok[0] == "vacuous"):
            locs = self.written_locations(log, since)
            finals = {k: (e, self.read_loc(e)) for k, e in locs.items()}
        self.rollback(log)
        return ok, finals

    def exclude_branch(self, g, exc, live, fr):
        """branch under g always ends in the uncaught exception exc: record it as a side outcome, assume not g, run `live`"""
        self._snap(exc.exc)
        self.side.append((list(self.pc) + list(self.deferred) + [zbool(x) for x in self.merge_guards] + [g], ("raise", exc.exc)))
        ng = z3.Not(g)
        if self.in_merge == 0:
            self.assume(ng)
        else:
            self.solver.add(ng)      # NB: inside an enclosing logged branch: its solver scope is popped with it
            self.deferred.append(z3.Not(z3.And(*([zbool(x) for x in self.merge_guards] + [g]))))
        self.exec_block(live, fr)
        return True

    def try_merge(self, g, body, orelse, fr):
        ok1, f1 = self.run_branch_logged(g, body, fr)
        if not ok1:
            self.stats["merge_aborts"] += 1
            return False
        if isinstance(ok1, tuple) and ok1[0] == "vacuous":
            return self.exclude_branch(g, ok1[1], orelse, fr)
        ok2, f2 = self.run_branch_logged(z3.Not(g), orelse, fr)
        if isinstance(ok2, tuple) and ok2[0] == "vacuous":
            return self.exclude_branch(z3.Not(g), ok2[1], body, fr)
        if not ok2 or (ok1 is True) != (ok2 is True):
            self.stats["merge_aborts"] += 1
            return False
        merged = []
        try:
            if ok1 is not True:
                retv = self.merge(g, ok1[1], ok2[1])
            for k in set(f1) | set(f2):
                e = (f1.get(k) or f2.get(k))[0]
                old = self.read_loc(e)
                a = f1[k][1] if k in f1 else old
                b = f2[k][1] if k in f2 else old
                if a is MISSING or b is MISSING:
                    raise MergeAbort("one-sided definition")
                merged.append((e, self.merge(g, a, b)))
        except MergeAbort as ex:
            if DEBUG:
                print("  merge abort(values):", ex)
            self.stats["merge_aborts"] += 1
            return False
        for e, v in merged:
            self.write_loc(e, v)
        self.stats["merges"] += 1
        if ok1 is not True:
            raise ReturnEx(retv)
        return True

    def iterate(self, it):
        """python list of the elements of an iterable value (forks where needed)"""
        if isinstance(it, FD):
            it = self.concretize(it, "iterable")
        if isinstance(it, SymArray):
            return list(it.items)
        if isinstance(it, SymStr):
            return self.chars(it)
        if has_gitems(it):
            it = as_glist(it)
        if isinstance(it, GList):
            out = []
            for g, v in it.items:
                if self.branch(zbool(g)):
                    out.append(v)
            return out
        if isinstance(it, SymDict):
            out = []
            for k, (g, v) in it.entries.items():
                if self.branch(zbool(g)):
                    out.append(k)
            return out
        if isinstance(it, Sym):
            raise PyRaise(TypeError("object is not iterable"))
        try:
            return list(it)
        except TypeError as ex:
            raise PyRaise(ex)

    def exec_guarded(self, g, body, fr):
        """execute body under guard g (like `if g: body`), merging when possible"""
        c = z3.simplify(zbool(g))
        if z3.is_true(c):
            return self.exec_block(body, fr)
        if z3.is_false(c):
            return
        ft = self.feasible(c)
        ff = self.feasible(z3.Not(c))
        if ft and not ff:
            self.assume(c)
            return self.exec_block(body, fr)
        if ff and not ft:
            self.assume(z3.Not(c))
            return
        if not ft and not ff:
            raise PathInfeasible()
        if not self.no_merge:
            try:
                if self.try_merge(c, body, [], fr):
                    return
            finally:
                self.flush_deferred()
        if self.branch(c):
            return self.exec_block(body, fr)

    def st_For(self, s, fr):
        itv = self.eval(s.iter, fr)
        if has_gitems(itv):
            itv = as_glist(itv)
        if isinstance(itv, GList) and not s.orelse and any(g is not True for g, _ in itv.items):
            # guarded iteration: each element's body runs under its presence guard (merged; forks only if the body does)
            for g, x in itv.items:
                self.assign(s.target, pyscalar(x), fr)
                try:
                    if g is True:
                        self.exec_block(s.body, fr)
                    else:
                        self.exec_guarded(g, s.body, fr)
                except BreakEx:
                    break
                except ContinueEx:
                    continue
            return
        it = self.iterate(itv)
        broke = False
        for x in it:
            self.assign(s.target, pyscalar(x), fr)
            try:
                self.exec_block(s.body, fr)
            except BreakEx:
                broke = True
                break
            except ContinueEx:
                continue
        if not broke and s.orelse:
            self.exec_block(s.orelse, fr)

    def st_While(self, s, fr):
        n = 0
        while True:
            c = self.truth(self.eval(s.test, fr))
            if not isinstance(c, bool):
                c = self.branch(c)
            if not c:
                break
            n += 1
            if n > self.loop_bound:
                if self.loop_cut:
                    self.notes.add("paths needing more than %d iterations of a retry loop are cut (outside the claim)" % self.loop_bound)
                    raise PathInfeasible()
                raise Unsupported("loop unwinding bound %d exceeded" % self.loop_bound)
            try:
                self.exec_block(s.body, fr)
            except BreakEx:
                return
            except ContinueEx:
                continue
        if s.orelse:
            self.exec_block(s.orelse, fr)

    def st_Raise(self, s, fr):
        if s.exc is None:
            raise Unsupported("bare raise")
        exc = self.eval(s.exc, fr)
        if isinstance(exc, type):
            exc = exc()
        raise PyRaise(exc)

    def st_Try(self, s, fr):
        try:
            try:
                self.try_depth += 1
                try:
                    self.exec_block(s.body, fr)
                finally:
                    self.try_depth -= 1
            except PyRaise as e:
                for h in s.handlers:
                    t = self.eval(h.type, fr) if h.type else BaseException
                    if isinstance(e.exc, t):
                        if h.name:
                            self.set_var(fr, h.name, e.exc)
                        self.exec_block(h.body, fr)
                        break
                else:
                    raise
            else:
                self.exec_block(s.orelse, fr)
        finally:
            if s.finalbody:
                self.exec_block(s.finalbody, fr)

    def st_Assert(self, s, fr):
        c = self.truth(self.eval(s.test, fr))
        if not isinstance(c, bool):
            c = self.branch(c)
        if not c:
            raise PyRaise(AssertionError())

    def st_With(self, s, fr):
        mgrs = []
        for item in s.items:
            m = self.eval(item.context_expr, fr)
            ent = getattr(m, "__enter__", None)
            if ent is None:
                raise PyRaise(TypeError("not a context manager"))
            v = ent()
            mgrs.append(m)
            if item.optional_vars is not None:
                self.assign(item.optional_vars, v, fr)
        try:
            self.exec_block(s.body, fr)
        finally:
            for m in reversed(mgrs):
                m.__exit__(None, None, None)

    # ------------------------------------------------------------------ expressions
    def mangle(self, attr, fr):
        if attr.startswith("__") and not attr.endswith("__"):
            f = fr
            while f is not None and f.cls is None:
                f = f.parent
            if f is not None:
                return "_%s%s" % (f.cls.__name__.lstrip("_"), attr)
        return attr

    def eval(self, e, fr):
        m = getattr(self, "ex_" + type(e).__name__, None)
        if m is None:
            raise Unsupported("expression %s" % type(e).__name__)
        return m(e, fr)

    def ex_Constant(self, e, fr):
        return e.value

    def ex_Name(self, e, fr):
        f = fr
        while f is not None:
            if e.id in f.vars:
                return f.vars[e.id]
            f = f.parent
        if e.id in fr.globs:
            return fr.globs[e.id]
        if hasattr(builtins, e.id):
            return getattr(builtins, e.id)
        raise PyRaise(NameError("name %r is not defined" % e.id) if e.id not in self._local_names(fr) else
                      UnboundLocalError("cannot access local variable %r where it is not associated with a value" % e.id))

    def _local_names(self, fr):
        names = getattr(fr, "_locals", None)
        if names is None:
            names = set()
            try:
                node = self.get_ast(fr.fn) if not isinstance(fr.fn, InterpFunc) else fr.fn.node
                for n in ast.walk(node):
                    if isinstance(n, ast.Name) and isinstance(n.ctx, ast.Store):
                        names.add(n.id)
            except Exception:
                pass
            fr._locals = names
        return names

    def ex_Tuple(self, e, fr):
        out = []
        for x in e.elts:
            if isinstance(x, ast.Starred):
                out.extend(self.iterate(self.eval(x.value, fr)))
            else:
                out.append(self.eval(x, fr))
        return tuple(out)

    def ex_List(self, e, fr):
        return list(self.ex_Tuple(e, fr))

    def ex_Set(self, e, fr):
        vals = [self.eval(x, fr) for x in e.elts]
        if any(self.deep_symbolic(v) for v in vals):
            raise Unsupported("set display with symbolic elements")
        return set(vals)

    def ex_Dict(self, e, fr):
        d = {}
        for k, v in zip(e.keys, e.values):
            kk = self.eval(k, fr)
            if self.deep_symbolic(kk):
                raise Unsupported("dict display with symbolic key")
            d[kk] = self.eval(v, fr)
        return d

    def ex_Lambda(self, e, fr):
        f = InterpFunc(e, fr)
        f.defaults = tuple(self.eval(d, fr) for d in e.args.defaults)
        return f

    def getattr_(self, o, name):
        if self.footprint is not None and hasattr(o, "__dict__") and not isinstance(o, (type, types.ModuleType)):
            self.footprint["r"].add((type(o).__name__, name))
        if isinstance(o, WhereResult) and name == "size":
            return self.count_true([self.truth(m) for m in o.mask.items])
        if isinstance(o, SymStr):
            if name == "__class__":
                return str
            return SymMethod(o, name)
        if isinstance(o, FD):
            vals = [getattr(v, name, MISSING) for _, v in o.cases]
            if all(v is not MISSING and not callable(v) for v in vals):
                return mk_fd_apply(self, lambda v: getattr(v, name), o)
            if name == "__class__":
                return mk_fd([(g, v.__class__) for g, v in o.cases])
            return SymMethod(o, name)
        if isinstance(o, Sym):
            if name == "__class__":
                return {"int": int, "real": float, "bool": bool}[o.kind]
            return SymMethod(o, name)
        if isinstance(o, SetList):
            if name == "__class__":
                return set
            return SymMethod(o, name)
        if isinstance(o, (SymArray, GList, SymDict)):
            if name == "__class__":
                import numpy as np
                return {SymArray: np.ndarray, GList: list, SymDict: dict}[type(o)]
            if isinstance(o, SymArray) and name == "size":
                return len(o)
            if isinstance(o, SymArray) and name == "shape":
                return (len(o),)
            return SymMethod(o, name)
        try:
            return getattr(o, name)
        except AttributeError as ex:
            raise PyRaise(ex)

    def ex_Attribute(self, e, fr):
        o = self.eval(e.value, fr)
        return self.getattr_(o, self.mangle(e.attr, fr))

    def ex_BinOp(self, e, fr):
        a = self.eval(e.left, fr)
        b = self.eval(e.right, fr)
        return self.binop(e.op, a, b)

    def ex_UnaryOp(self, e, fr):
        v = self.eval(e.operand, fr)
        if isinstance(e.op, ast.Not):
            return self.not_(v)
        if isinstance(e.op, ast.USub):
            if not is_sym(v) and not isinstance(v, SymArray):
                try:
                    return -v
                except TypeError as ex:
                    raise PyRaise(ex)
            return self.binop(ast.Sub(), 0, v)
        if isinstance(e.op, ast.UAdd):
            return v
        raise Unsupported("unary op")

    def ex_BoolOp(self, e, fr):
        isand = isinstance(e.op, ast.And)
        # python semantics: returns the deciding operand; only the truth value is modelled
        # once a symbolic operand takes part
        acc = None
        vals = e.values
        for i, x in enumerate(vals):
            v = self.eval(x, fr)
            t = self.truth(v)
            if acc is None:
                if isinstance(t, bool):
                    if (isand and not t) or (not isand and t):
                        return v
                    if i == len(vals) - 1:
                        return v
                    continue
                if i == len(vals) - 1:
                    return v
                acc = t
            else:
                if isinstance(t, bool):
                    if (isand and not t):
                        return False
                    if (not isand and t):
                        return True
                    continue
                acc = z3.And(acc, t) if isand else z3.Or(acc, t)
            # evaluation of later operands happens under the guard that earlier ones did not decide
        return self.from_truth(acc) if acc is not None else isand

    def ex_Compare(self, e, fr):
        left = self.eval(e.left, fr)
        acc = True
        for op, r in zip(e.ops, e.comparators):
            right = self.eval(r, fr)
            if isinstance(op, (ast.Is, ast.IsNot)):
                res = PYOPS[type(op)](left, right)
            else:
                res = self.binop(op, left, right)
            acc = self.and_(acc, res) if acc is not True else res
            left = right
        return acc

    def ex_IfExp(self, e, fr):
        c = self.truth(self.eval(e.test, fr))
        if isinstance(c, bool):
            return self.eval(e.body if c else e.orelse, fr)
        if self.branch_known(c) is not None:
            return self.eval(e.body if self.branch_known(c) else e.orelse, fr)
        try:
            return self.merge(c, self.eval(e.body, fr), self.eval(e.orelse, fr))
        except MergeAbort:
            return self.eval(e.body if self.branch(c) else e.orelse, fr)

    def branch_known(self, c):
        ft = self.feasible(c)
        ff = self.feasible(z3.Not(c))
        if ft and not ff:
            return True
        if ff and not ft:
            return False
        if not ft and not ff:
            raise PathInfeasible()
        return None

    def subscript(self, c, k):
        if isinstance(c, tuple) and len(c) == 2 and isinstance(c[0], str) and c[0] == "__vstack__":
            c = c[1]
            if isinstance(k, tuple) and len(k) == 2:
                # 2-d indexing data[i, j] / data[i, :]
                row = self.subscript(c, k[0])
                if isinstance(k[1], slice):
                    return list(row)[k[1]]
                return self.subscript(row, k[1])
        if isinstance(c, SymArray):
            c = c.items
        if isinstance(c, WhereResult):
            raise Unsupported("indexing np.where result")
        if isinstance(c, SymStr):
            c = self.chars(c)
            is_str = True
        else:
            is_str = False
        if isinstance(c, SymDict):
            if is_sym(k):
                out = []
                for g, kk in fd_cases(k) if isinstance(k, FD) else []:
                    out.append((g, kk))
                if not out:
                    raise Unsupported("Sym key into guarded dict")
                return mk_fd_apply(self, lambda kk: self.subscript(c, kk), k)
            if k not in c.entries:
                raise PyRaise(KeyError(k))
            g, v = c.entries[k]
            t = self.truth(self.from_truth(zbool(g))) if not isinstance(g, bool) else g
            if t is not True:
                if not self.branch(t):
                    raise PyRaise(KeyError(k))
            return v
        if has_gitems(c):
            c = as_glist(c)
        if isinstance(c, GList):
            return self.glist_index(c, k)
        if isinstance(c, FD):
            return mk_fd_apply(self, lambda cc: self.subscript(cc, k), c)
        if isinstance(k, FD):
            def look(kk):
                try:
                    return c[kk]
                except (KeyError, IndexError, TypeError) as ex:
                    raise PyRaise(ex)
            return mk_fd_apply(self, look, k)
        if isinstance(k, Sym):
            if k.kind != "int" or not isinstance(c, (list, tuple, dict, str)):
                raise Unsupported("symbolic subscript on %s" % type(c).__name__)
            if isinstance(c, dict):
                keys = [kk for kk in c.keys() if isinstance(kk, int)]
                cases = [(k.z == kk, kk) for kk in keys]
            else:
                n = len(c)
                cases = [(z3.Or(k.z == i, k.z == i - n), i) for i in range(n)]
            rest = z3.Not(z3.Or(*[g for g, _ in cases])) if cases else TRUE
            self.raise_if(rest, PyRaise((KeyError if isinstance(c, dict) else IndexError)("index out of range")))
            pk = self.prune(FD(cases)) if len(cases) > 1 else cases[0][1]
            if not isinstance(pk, FD):
                return c[pk]
            return mk_fd_apply(self, lambda kk: c[kk], pk)
        if isinstance(k, SymStr):
            u = k.uniform_chars()
            if u is not None and len(u) == 1:
                return self.subscript(c, u[0])
            raise Unsupported("symbolic string key")
        try:
            r = c[k]
        except (KeyError, IndexError, TypeError) as ex:
            raise PyRaise(ex)
        return pyscalar(r) if not is_str else r

    def glist_index(self, gl, k):
        k = self.concretize(k, "guarded-list index")
        if not isinstance(k, int):
            raise PyRaise(TypeError("list indices must be integers"))
        if k < 0:
            raise Unsupported("negative index into guarded list")
        # element j is the k-th present one iff guard_j and exactly k of the earlier guards hold
        cases = []
        gs = [zbool(g) for g, _ in gl.items]
        for j, (g, v) in enumerate(gl.items):
            if j < k:
                continue
            before = gs[:j]
            if before:
                cnt = z3.Sum([z3.If(b, 1, 0) for b in before]) if len(before) > 1 else z3.If(before[0], 1, 0)
                cond = z3.And(gs[j], cnt == k)
            else:
                cond = gs[j] if k == 0 else FALSE
            cond = z3.simplify(cond)
            if z3.is_false(cond):
                continue
            for g2, vv in fd_cases(v):
                cases.append((z3.And(cond, g2) if g2 is not TRUE else cond, vv))
        total = z3.Sum([z3.If(b, 1, 0) for b in gs]) if len(gs) > 1 else (z3.If(gs[0], 1, 0) if gs else z3.IntVal(0))
        short = total <= k
        self.raise_if(short, PyRaise(IndexError("list index out of range")))
        if not cases:
            raise PathInfeasible()
        return self.prune(mk_fd(cases)) if True else None

    def ex_Subscript(self, e, fr):
        c = self.eval(e.value, fr)
        if isinstance(e.slice, ast.Slice):
            lo = self.concretize(self.eval(e.slice.lower, fr)) if e.slice.lower else None
            hi = self.concretize(self.eval(e.slice.upper, fr)) if e.slice.upper else None
            st = self.concretize(self.eval(e.slice.step, fr)) if e.slice.step else None
            if isinstance(c, tuple) and len(c) == 2 and isinstance(c[0], str) and c[0] == "__vstack__":
                c = c[1]
            if isinstance(c, SymArray):
                return c.view(slice(lo, hi, st))      # numpy: basic slicing returns a view
            if isinstance(c, SymStr):
                return mk_str(self.chars(c)[lo:hi:st])
            if isinstance(c, GList):
                raise Unsupported("slice of guarded list")
            try:
                return c[lo:hi:st]
            except TypeError as ex:
                raise PyRaise(ex)
        k = self.eval(e.slice, fr)
        return self.subscript(c, k)

    def ex_Slice(self, e, fr):
        lo = self.concretize(self.eval(e.lower, fr)) if e.lower else None
        hi = self.concretize(self.eval(e.upper, fr)) if e.upper else None
        st = self.concretize(self.eval(e.step, fr)) if e.step else None
        return slice(lo, hi, st)

    def ex_Call(self, e, fr):
        fn = self.eval(e.func, fr)
        args = []
        for a in e.args:
            if isinstance(a, ast.Starred):
                args.extend(self.iterate(self.eval(a.value, fr)))
            else:
                args.append(self.eval(a, fr))
        kwargs = {}
        for k in e.keywords:
            if k.arg is None:
                kwargs.update(self.eval(k.value, fr))
            else:
                kwargs[k.arg] = self.eval(k.value, fr)
        # interpreter-level container mutation (for the undo log)
        if isinstance(fn, types.BuiltinMethodType):
            recv = fn.__self__
            if isinstance(recv, list):
                if fn.__name__ == "append" and len(args) == 1:
                    self.list_append(recv, args[0])
                    return None
                if fn.__name__ == "pop":
                    if not recv:
                        raise PyRaise(IndexError("pop from empty list"))
                    if not args:
                        v = recv[-1]
                        self.log(("pop", recv, v))
                        recv.pop()
                        return v
                    idx = self.concretize(args[0], "pop index")
                    try:
                        v = recv[idx]
                    except IndexError as ex:
                        raise PyRaise(ex)
                    new = list(recv)
                    new.pop(idx)
                    self.list_replace(recv, new)
                    return v
                if fn.__name__ in ("extend", "insert", "remove", "sort", "reverse", "clear"):
                    new = list(recv)
                    if fn.__name__ == "extend":
                        new.extend(self.iterate(args[0]))
                    elif self.deep_symbolic(args) or self.deep_symbolic(recv):
                        raise Unsupported("list.%s with symbolic content" % fn.__name__)
                    else:
                        try:
                            getattr(new, fn.__name__)(*args, **kwargs)
                        except Exception as ex:
                            raise PyRaise(ex)
                    self.list_replace(recv, new)
                    return None
            if isinstance(recv, dict) and fn.__name__ == "update" and len(args) == 1 and isinstance(args[0], dict) and not kwargs:
                for k_, v_ in args[0].items():
                    self.set_item(recv, k_, v_)
                return None
            if isinstance(recv, set) and fn.__name__ in ("add", "discard", "remove", "update", "clear"):
                if self.deep_symbolic(args):
                    if fn.__name__ == "add" and isinstance(e.func, ast.Attribute) and isinstance(e.func.value, ast.Name):
                        # a python set receiving a symbolic element becomes a list used as a set (membership / len only)
                        sl = SetList(list(recv))
                        self.assign(e.func.value, sl, fr)
                        return self.setlist_add(sl, args[0])
                    raise Unsupported("set.%s with symbolic element" % fn.__name__)
                if self.undo is not None:
                    raise MergeAbort("set mutation inside merge")
            if isinstance(recv, SetList) and fn.__name__ == "append":
                pass
        if isinstance(fn, SymMethod) and isinstance(fn.recv, SetList):
            if fn.name == "add" and len(args) == 1:
                return self.setlist_add(fn.recv, args[0])
            raise Unsupported("set method %s on symbolic set" % fn.name)
        return self.call(fn, args, kwargs)

    def setlist_add(self, sl, x):
        """set.add(x): x becomes present unless an equal element is already present"""
        present = self.contains(sl, x)
        t = self.truth(present)
        if t is True:
            return None
        if t is False:
            self.list_append(sl, x)
        else:
            self.list_append(sl, GItem(z3.Not(t), x))
        return None

    def comprehension(self, e, fr, kind):
        # comprehension scope: loop variables live in a child frame
        cfr = Frame(fr.fn, fr.globs, fr.cls, parent=fr)
        out = []
        guarded = [False]

        def rec(gi, guard):
            if gi == len(e.generators):
                if kind == "dict":
                    val = (self.eval(e.key, cfr), self.eval(e.value, cfr))
                else:
                    val = self.eval(e.elt, cfr)
                out.append((guard, val))
                return
            gen = e.generators[gi]
            itv = self.eval(gen.iter, cfr)
            if has_gitems(itv):
                itv = as_glist(itv)
            if isinstance(itv, GList):
                pairs = list(itv.items)
            else:
                pairs = [(True, x) for x in self.iterate(itv)]
            for g0, x in pairs:
                self.assign(gen.target, pyscalar(x), cfr)
                g = guard
                if g0 is not True:
                    g = zbool(g0) if g is True else z3.And(g, zbool(g0))
                    guarded[0] = True
                ok = True
                for c in gen.ifs:
                    t = self.truth(self.eval(c, cfr))
                    if isinstance(t, bool):
                        if not t:
                            ok = False
                            break
                        continue
                    t = z3.simplify(t)
                    known = self.branch_known(t) if (g is True) else None
                    if known is True:
                        continue
                    if known is False:
                        ok = False
                        break
                    g = t if g is True else z3.And(g, t)
                    guarded[0] = True
                if ok:
                    rec(gi + 1, g)
        rec(0, True)
        if kind == "dict":
            if guarded[0]:
                raise Unsupported("dict comprehension with symbolic filter")
            return {k: v for _, (k, v) in out}
        if not guarded[0]:
            vals = [v for _, v in out]
            if kind == "set":
                if any(self.deep_symbolic(v) for v in vals):
                    return GList([(True, v) for v in vals])   # set of symbolic elements: only membership is used
                return set(vals)
            return vals
        return GList(out)

    def ex_ListComp(self, e, fr):
        return self.comprehension(e, fr, "list")

    def ex_GeneratorExp(self, e, fr):
        return self.comprehension(e, fr, "list")

    def ex_SetComp(self, e, fr):
        return self.comprehension(e, fr, "set")

    def ex_DictComp(self, e, fr):
        return self.comprehension(e, fr, "dict")

    def ex_JoinedStr(self, e, fr):
        parts = []
        for v in e.values:
            if isinstance(v, ast.Constant):
                parts.append(v.value)
            else:
                x = self.eval(v.value, fr)
                if v.format_spec is not None or v.conversion != -1:
                    if self.deep_symbolic(x):
                        raise Unsupported("f-string format spec on symbolic value")
                    spec = self.eval(v.format_spec, fr) if v.format_spec is not None else ""
                    parts.append(format(x, spec))
                elif isinstance(x, (SymStr, FD)):
                    parts.append(x if isinstance(x, SymStr) else mk_fd_apply(self, str, x))
                elif isinstance(x, Sym):
                    raise Unsupported("f-string of symbolic number")
                else:
                    parts.append(str(x))
        return mk_str(parts)

    def ex_FormattedValue(self, e, fr):
        return self.ex_JoinedStr(ast.JoinedStr(values=[e]), fr)


def mk_fd_apply(I, f, fd):
    """apply f casewise to an FD; results may be symbolic -> merged"""
    rs = []
    for g, v in fd.cases:
        try:
            rs.append((g, f(v)))
        except PyRaise as ex:
            I.raise_if(g, ex)
    if not rs:
        raise PathInfeasible()
    if not any(is_sym(r) or isinstance(r, (SymArray, SymStr, list, dict, GList, tuple)) for _, r in rs):
        return mk_fd(rs)
    res = None
    for g, r in reversed(rs):
        res = r if res is None else I.merge(g, r, res)
    return res
