"""concrete value of a symx value under a z3 model (translator validation, counterexample extraction)"""
import z3
from fractions import Fraction
from .values import *


def _true(m, g):
    if isinstance(g, bool):
        return g
    return z3.is_true(m.eval(g, model_completion=True))


def concrete(m, v):
    if isinstance(v, Sym):
        r = m.eval(v.z, model_completion=True)
        if v.kind == "int":
            return r.as_long()
        if v.kind == "bool":
            return z3.is_true(r)
        if v.kind == "bv":
            return r.as_signed_long()
        if v.kind == "fp":
            return float(eval(str(z3.simplify(z3.fpToReal(r))).replace("/", "/1.0/"))) if not (z3.is_fp(r) and (r.isNaN() or r.isInf())) else float("nan")
        if z3.is_algebraic_value(r):
            r = r.approx(30)
        return Fraction(r.numerator_as_long(), r.denominator_as_long())
    if isinstance(v, FD):
        for g, x in v.cases:
            if _true(m, g):
                return x
        raise ValueError("FD has no true case under the model (guards not exhaustive)")
    if isinstance(v, SymStr):
        return "".join(p if isinstance(p, str) else concrete(m, p) for p in v.pieces)
    if isinstance(v, SymArray):
        return [concrete(m, x) for x in v.items]
    if isinstance(v, GList):
        return [concrete(m, x) for g, x in v.items if _true(m, zbool(g))]
    if isinstance(v, SymDict):
        return {k: concrete(m, x) for k, (g, x) in v.entries.items() if _true(m, zbool(g))}
    if isinstance(v, tuple) and len(v) == 2 and isinstance(v[0], str) and v[0] == "__vstack__":
        return [concrete(m, r) for r in v[1]]
    if isinstance(v, list):
        return [concrete(m, x.v if isinstance(x, GItem) else x) for x in v if not isinstance(x, GItem) or _true(m, zbool(x.g))]
    if isinstance(v, tuple):
        return tuple(concrete(m, x) for x in v)
    if isinstance(v, dict):
        return {k: concrete(m, x) for k, x in v.items()}
    try:
        import numpy as np
        if isinstance(v, np.ndarray):
            return v.tolist()
    except ImportError:
        pass
    return pyscalar(v)


def model_from_assignment(assign):
    """z3 model in which the given {z3 const: python value} hold"""
    s = z3.Solver()
    for k, val in assign.items():
        s.add(k == val)
    assert s.check() == z3.sat
    return s.model()
