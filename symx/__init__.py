from .values import *
from .interp import Interp, PyRaise, mk_fd_apply
from .evalm import concrete, model_from_assignment
