"""
symx values.

  concrete python objects        anything
  Sym(z, kind)                   z3 term of sort Int / Real / Bool
  FD(cases)                      guarded finite set of *concrete* python values
                                 [(guard, value)], guards mutually exclusive and,
                                 under the path condition, exhaustive
  SymStr(pieces)                 string = concatenation of pieces, a piece being a
                                 concrete str or an FD of str
  SymArray(items, isfloat)       1-d numpy array model
  WhereResult(mask)              np.where(mask)[0]
  GList(items)                   list whose elements are present under a guard
  SymDict(entries)               dict whose keys are present under a guard
"""
import z3
from fractions import Fraction


class Unsupported(Exception):
    """construct the engine cannot encode -> ENCODING-GAP (inconclusive)"""


class MergeAbort(Exception):
    pass


class PathInfeasible(Exception):
    pass


class Sym:
    __slots__ = ("z", "kind", "np_scalar", "frac")

    def __init__(self, z, kind, np_scalar=False, frac=None):
        self.z = z
        self.kind = kind  # int | real | bool
        self.np_scalar = np_scalar   # value stands for a numpy scalar (affects list <op> scalar broadcasting)
        self.frac = frac             # (numerator, denominator) z3 terms when the value is a quotient by a symbolic term

    def __repr__(self):
        return "Sym<%s:%s>" % (self.kind, str(self.z)[:80])

    def __bool__(self):
        raise Unsupported("python truth value of a Sym (engine bug: missing model)")


class FD:
    __slots__ = ("cases", "_pruned_at", "_vars")

    def __init__(self, cases):
        self.cases = cases
        self._pruned_at = None
        self._vars = None

    def vars(self):
        """ids of the z3 constants the guards mention (cached)"""
        if self._vars is None:
            out = set()
            for g, _ in self.cases:
                if not isinstance(g, bool):
                    out |= z3_consts(g)
            self._vars = frozenset(out)
        return self._vars

    def __repr__(self):
        return "FD<" + ",".join(repr(v) for _, v in self.cases[:8]) + (",..." if len(self.cases) > 8 else "") + ">"

    def __bool__(self):
        raise Unsupported("python truth value of an FD (engine bug: missing model)")


class SymArray:
    """1-d numpy array model.  A basic slice of a SymArray is a *view* (numpy semantics): it shares storage with its base,
    so element writes through the view are visible in the base and vice versa."""

    def __init__(self, items, isfloat=True, base=None, index=None):
        self._items = list(items) if base is None else None
        self.isfloat = isfloat
        self.base = base          # root SymArray (never itself a view)
        self.index = index        # positions in the root's storage

    @property
    def items(self):
        if self.base is None:
            return self._items
        return [self.base._items[i] for i in self.index]

    def storage(self, k):
        """(python list, position) holding element k"""
        if self.base is None:
            return self._items, k
        return self.base._items, self.index[k]

    def view(self, sl):
        root = self if self.base is None else self.base
        idx = list(range(len(self._items)))[sl] if self.base is None else self.index[sl]
        return SymArray(None, self.isfloat, base=root, index=idx)

    def __len__(self):
        return len(self._items) if self.base is None else len(self.index)

    def __repr__(self):
        return "SymArray%r" % (self.items,)


class WhereResult:
    def __init__(self, mask):
        self.mask = mask  # SymArray of truth values


class GList:
    """list with guarded presence: items = [(guard(bool|z3 Bool), value)] in order"""

    def __init__(self, items):
        self.items = list(items)

    def __repr__(self):
        return "GList(%d)" % len(self.items)


class GItem:
    """element of a python list that is present only under a guard (in-place guarded append)"""
    __slots__ = ("g", "v")

    def __init__(self, g, v):
        self.g = g
        self.v = v

    def __repr__(self):
        return "GItem(%r)" % (self.v,)


class SetList(list):
    """python list standing for a set that holds symbolic elements (only membership, add and len are used)"""


def has_gitems(lst):
    return isinstance(lst, list) and any(isinstance(x, GItem) for x in lst)


def as_glist(lst):
    return GList([(x.g, x.v) if isinstance(x, GItem) else (True, x) for x in lst])


class SymDict:
    """dict with guarded key presence: entries = {key: (guard, value)} (insertion ordered)"""

    def __init__(self, entries):
        self.entries = dict(entries)

    def __repr__(self):
        return "SymDict(%d)" % len(self.entries)


_consts_cache = {}


def z3_consts(e):
    """frozenset of names of uninterpreted constants in a z3 expression.
    Memoised by ast id; the cache keeps a reference to the term so that z3 cannot recycle the id."""
    k = e.get_id()
    r = _consts_cache.get(k)
    if r is not None:
        return r[1]
    out = set()
    seen = set()
    stack = [e]
    while stack:
        x = stack.pop()
        i = x.get_id()
        if i in seen:
            continue
        seen.add(i)
        c = _consts_cache.get(i)
        if c is not None:
            out |= c[1]
            continue
        if z3.is_const(x):
            if x.decl().kind() == z3.Z3_OP_UNINTERPRETED:
                out.add(x.decl().name())
        else:
            stack.extend(x.children())
    r = frozenset(out)
    if len(_consts_cache) > 50000:
        _consts_cache.clear()
    _consts_cache[k] = (e, r)
    return r


def is_sym(v):
    return isinstance(v, (Sym, FD))


TRUE = z3.BoolVal(True)
FALSE = z3.BoolVal(False)


def zbool(g):
    if isinstance(g, bool):
        return TRUE if g else FALSE
    return g


def z3val(v):
    if isinstance(v, bool):
        return z3.BoolVal(v)
    if isinstance(v, int):
        return z3.IntVal(v)
    if isinstance(v, float):
        if v != v or v in (float("inf"), float("-inf")):
            raise Unsupported("non-finite float in real model")
        return z3.RealVal(Fraction(v))
    if isinstance(v, Fraction):
        return z3.RealVal(v)
    raise TypeError("no z3 value for %r" % (v,))


def pyscalar(v):
    """numpy scalars -> python scalars (exact)"""
    try:
        import numpy as np
        if isinstance(v, np.bool_):
            return bool(v)
        if isinstance(v, np.integer):
            return int(v)
        if isinstance(v, np.floating):
            return float(v)
    except ImportError:
        pass
    return v


def kind_of_py(v):
    v = pyscalar(v)
    if isinstance(v, bool):
        return "bool"
    if isinstance(v, int):
        return "int"
    if isinstance(v, (float, Fraction)):
        return "real"
    return None


def to_sym(v):
    if isinstance(v, Sym):
        return v
    if isinstance(v, FD):
        kinds = {kind_of_py(x) for _, x in v.cases}
        if None in kinds:
            raise Unsupported("cannot lift %r to z3" % (v,))
        kind = "real" if "real" in kinds else ("int" if "int" in kinds else "bool")

        def conv(x):
            x = pyscalar(x)
            if kind == "real":
                return z3val(x if isinstance(x, Fraction) else float(x))
            if kind == "int":
                return z3val(int(x))
            return z3val(bool(x))
        acc = conv(v.cases[-1][1])
        for g, x in reversed(v.cases[:-1]):
            acc = z3.If(g, conv(x), acc)
        return Sym(acc, kind)
    v = pyscalar(v)
    k = kind_of_py(v)
    if k is None:
        raise Unsupported("cannot lift %s to z3" % type(v).__name__)
    return Sym(z3val(v), k)


def as_real(s):
    s = to_sym(s)
    if s.kind == "real":
        return s.z
    if s.kind == "int":
        return z3.ToReal(s.z)
    return z3.If(s.z, z3.RealVal(1), z3.RealVal(0))


def as_int(s):
    s = to_sym(s)
    if s.kind == "int":
        return s.z
    if s.kind == "bool":
        return z3.If(s.z, z3.IntVal(1), z3.IntVal(0))
    raise Unsupported("real used as int")


def _key(v):
    try:
        k = (type(v), v)
        hash(k)
        if isinstance(v, float) and v == 0.0:
            import math
            k = (float, v, math.copysign(1.0, v))
        return k
    except TypeError:
        return ("id", id(v))


def fd_norm(cases):
    groups = {}
    order = []
    for g, v in cases:
        if isinstance(g, bool):
            if not g:
                continue
            g = TRUE
        elif z3.is_false(g):
            continue
        key = _key(v)
        if key in groups:
            groups[key][0].append(g)
        else:
            groups[key] = ([g], v)
            order.append(key)
    out = []
    for k in order:
        gs, v = groups[k]
        out.append(((gs[0] if len(gs) == 1 else z3.Or(*gs)), v))
    return out


def mk_fd(cases):
    cases = fd_norm(cases)
    if len(cases) == 1:
        return cases[0][1]
    if not cases:
        raise PathInfeasible()
    return FD(cases)


def fd_cases(v):
    return v.cases if isinstance(v, FD) else [(TRUE, v)]


# ---------------------------------------------------------------------------
# SymStr
# ---------------------------------------------------------------------------
class SymStr:
    def __init__(self, pieces):
        out = []
        for p in pieces:
            if isinstance(p, SymStr):
                ps = p.pieces
            else:
                ps = [p]
            for q in ps:
                if isinstance(q, str):
                    if q == "":
                        continue
                    if out and isinstance(out[-1], str):
                        out[-1] = out[-1] + q
                    else:
                        out.append(q)
                elif isinstance(q, FD):
                    out.append(q)
                else:
                    raise Unsupported("SymStr piece of type %s" % type(q).__name__)
        self.pieces = out

    def __repr__(self):
        return "SymStr%r" % (self.pieces,)

    def is_concrete(self):
        return all(isinstance(p, str) for p in self.pieces)

    def concrete(self):
        return "".join(self.pieces)

    def uniform_chars(self):
        """list of 1-char items (str | FD of 1-char str) or None when a piece has
        cases of length != 1"""
        out = []
        for p in self.pieces:
            if isinstance(p, str):
                out.extend(p)
            else:
                lens = {len(v) for _, v in p.cases}
                if len(lens) != 1:
                    return None
                n = lens.pop()
                if n == 1:
                    out.append(p)
                else:
                    for j in range(n):
                        out.append(mk_fd([(g, v[j]) for g, v in p.cases]))
        return out


def mk_str(pieces):
    s = SymStr(pieces)
    if s.is_concrete():
        return s.concrete()
    return s


def sym_char(name, alphabet):
    """(z3 var, FD char, domain constraint)"""
    v = z3.Int(name)
    return v, FD([(v == i, ch) for i, ch in enumerate(alphabet)]), z3.And(v >= 0, v < len(alphabet))
