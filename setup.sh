#!/bin/sh
# Build the overlay venv used by every check (offline; wheels from /opt/veriftools/wheels).
# /verif/.venv = /venv (repo deps: numpy, matplotlib, scipy, Bio) + z3-solver, cvc5, crosshair-tool, jsonschema.
set -e
HERE=$(cd "$(dirname "$0")" && pwd)
V="$HERE/.venv"
if [ -x "$V/bin/python" ] && "$V/bin/python" -c "import z3, numpy, jsonschema" 2>/dev/null; then
  exit 0
fi
rm -rf "$V"
/venv/bin/python -m venv "$V"
SP=$("$V/bin/python" -c "import sysconfig; print(sysconfig.get_paths()['purelib'])")
printf "import site; site.addsitedir('/venv/lib/python3.12/site-packages')\n" > "$SP/_venv.pth"
PIP_NO_INDEX=1 "$V/bin/pip" install -q --no-index --find-links /opt/veriftools/wheels z3-solver cvc5 crosshair-tool jsonschema >/dev/null
"$V/bin/python" -c "import z3, numpy, jsonschema; print('verif venv ready', z3.get_version_string())"
