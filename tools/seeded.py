#!/usr/bin/env python3
"""
Seeded-change bookkeeping.

  tools/seeded.py import  /tmp/out_c02/mut1 C02 [name]    verify a sub-agent's mutant in a scratch worktree (suite 42/42, demo fails with /
                                                        passes without) and keep it as /verif/seeded/<name>/
  tools/seeded.py run [name ...] [--tier quick]          apply each kept patch to /repo, run the property's check, undo, record result.json
"""
import sys, os, json, subprocess, shutil, time, tempfile

ROOT = os.path.dirname(os.path.dirname(os.path.abspath(__file__)))
SEEDED = os.path.join(ROOT, "seeded")


def sh(cmd, cwd=None, timeout=3600, env=None):
    p = subprocess.run(cmd, shell=True, cwd=cwd, capture_output=True, text=True, timeout=timeout, env=env)
    return p.returncode, p.stdout + p.stderr


def do_import(src, pid, name=None):
    name = name or "%s-%s" % (pid, os.path.basename(src.rstrip("/")))
    patch = os.path.join(src, "patch.diff")
    demo = os.path.join(src, "demo.py")
    wt = tempfile.mkdtemp(prefix="seedwt_", dir="/tmp")
    os.rmdir(wt)
    rc, out = sh("git -C /repo worktree add -q --detach %s HEAD" % wt)
    assert rc == 0, out
    rec = dict(property=pid, source="sub-agent (given only the property text and a scratch worktree)", ran=[])
    try:
        env = dict(os.environ, MPLBACKEND="Agg")
        rc0, out0 = sh("/venv/bin/python %s" % demo, cwd=wt, env=env, timeout=1800)
        rec["ran"].append(dict(cmd="cd <clean worktree> && /venv/bin/python demo.py", exit=rc0, tail=out0[-300:]))
        rc, out = sh("git apply %s" % patch, cwd=wt)
        rec["ran"].append(dict(cmd="git apply patch.diff", exit=rc, tail=out[-200:]))
        if rc != 0:
            print("PATCH DOES NOT APPLY", out)
            return False
        rc1, out1 = sh("/venv/bin/python %s" % demo, cwd=wt, env=env, timeout=1800)
        rec["ran"].append(dict(cmd="cd <patched worktree> && /venv/bin/python demo.py", exit=rc1, tail=out1[-400:]))
        rcs, outs = sh("python3 %s/tools/suite.py %s" % (ROOT, wt), timeout=3600)
        rec["ran"].append(dict(cmd="tools/suite.py <patched worktree>", exit=rcs, tail=outs[-200:]))
        ok = rc0 == 0 and rc1 != 0 and rcs == 0
        print("%s: demo clean exit=%d, demo patched exit=%d, suite exit=%d -> %s" % (name, rc0, rc1, rcs, "KEEP" if ok else "REJECT"))
        if not ok:
            print(out0[-300:], out1[-300:], outs[-300:])
            return False
        d = os.path.join(SEEDED, name)
        os.makedirs(d, exist_ok=True)
        shutil.copy(patch, os.path.join(d, "patch.diff"))
        shutil.copy(demo, os.path.join(d, "demo.py"))
        notes = os.path.join(src, "notes.md")
        needs = ""
        if os.path.exists(notes):
            shutil.copy(notes, os.path.join(d, "notes.md"))
            needs = open(notes).read()[:1500]
        rec["breaks"] = pid
        rec["needs_to_manifest"] = needs
        json.dump(rec, open(os.path.join(d, "meta.json"), "w"), indent=1)
        return True
    finally:
        sh("git -C /repo worktree remove --force %s" % wt)


def do_run(names, tier):
    rc, out = sh("git -C /repo status --porcelain")
    assert out.strip() == "", "/repo is not clean: " + out
    names = names or sorted(os.listdir(SEEDED))
    summary = []
    for n in names:
        d = os.path.join(SEEDED, n)
        meta = json.load(open(os.path.join(d, "meta.json")))
        pids = meta.get("checks") or [meta["property"]]
        rc, out = sh("git -C /repo apply %s" % os.path.join(d, "patch.diff"))
        if rc != 0:
            print(n, "patch does not apply:", out[-200:])
            summary.append((n, "patch-does-not-apply"))
            continue
        results = {}
        try:
            for pid in pids:
                t0 = time.time()
                rc, out = sh("./check %s --tier %s" % (pid, tier), cwd=ROOT, timeout=7200)
                viol = [l for l in out.splitlines() if l.startswith("VIOLATION")]
                det = [l for l in out.splitlines() if l.startswith("  detail")]
                summ = [l for l in out.splitlines() if l.startswith(pid + " [")]
                results[pid] = dict(exit=rc, violations=len(viol), first_detail=(det[0][:300] if det else ""), summary=(summ[0] if summ else out[-300:]), wall_s=round(time.time() - t0, 1))
        finally:
            sh("git -C /repo checkout -- .")
        caught = any(r["exit"] == 1 and r["violations"] > 0 for r in results.values())
        json.dump(dict(tier=tier, caught=caught, results=results), open(os.path.join(d, "result.json"), "w"), indent=1)
        print("%-28s %s  %s" % (n, "CAUGHT" if caught else "MISSED", {p: (r["exit"], r["violations"]) for p, r in results.items()}))
        summary.append((n, "caught" if caught else "missed"))
    rc, out = sh("git -C /repo status --porcelain")
    assert out.strip() == "", "/repo left dirty: " + out
    return summary


if __name__ == "__main__":
    if sys.argv[1] == "import":
        ok = do_import(sys.argv[2], sys.argv[3], sys.argv[4] if len(sys.argv) > 4 else None)
        sys.exit(0 if ok else 1)
    elif sys.argv[1] == "run":
        args = sys.argv[2:]
        tier = "quick"
        if "--tier" in args:
            i = args.index("--tier")
            tier = args[i + 1]
            del args[i:i + 2]
        do_run(args, tier)
