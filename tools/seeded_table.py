#!/usr/bin/env python3
"""markdown table of the seeded changes and the recorded check results (seeded/<name>/meta.json, result.json)"""
import json, os, re
ROOT = os.path.dirname(os.path.dirname(os.path.abspath(__file__)))
rows = []
for n in sorted(os.listdir(os.path.join(ROOT, "seeded"))):
    d = os.path.join(ROOT, "seeded", n)
    meta = json.load(open(os.path.join(d, "meta.json")))
    res = json.load(open(os.path.join(d, "result.json"))) if os.path.exists(os.path.join(d, "result.json")) else None
    notes = open(os.path.join(d, "notes.md")).read() if os.path.exists(os.path.join(d, "notes.md")) else ""
    patch = open(os.path.join(d, "patch.diff")).read()
    files = sorted(set(re.findall(r"^\+\+\+ b/(\S+)", patch, re.M)))
    title = ""
    for line in notes.splitlines():
        if line.strip().startswith("#"):
            title = line.strip("# ").strip()
            break
    caught = "—"
    if res:
        caught = "; ".join("%s %s (%d)" % (p, "CAUGHT" if r["exit"] == 1 and r["violations"] else "missed", r["violations"]) for p, r in res["results"].items())
    rows.append("| %s | %s | %s | %s |" % (n, title[:110].replace("|", "/"), ", ".join(os.path.basename(f) for f in files), caught))
print("| seeded change | what it does (sub-agent's title) | file | quick check result (violations) |")
print("|---|---|---|---|")
print("\n".join(rows))
