#!/bin/sh
# run every claimed check (quick by default) and print the summary lines
cd "$(dirname "$0")/.."
TIER=${1:-quick}
for id in $(python3 -c "import json; print(' '.join(c['property_id'] for c in json.load(open('MANIFEST.json'))['checks']))"); do
  s=$(date +%s)
  out=$(./check $id --tier $TIER 2>&1); rc=$?
  e=$(date +%s)
  echo "$out" | grep "^$id \[" | cut -c1-260
  echo "   exit=$rc wall=$((e-s))s violations=$(echo "$out" | grep -c '^VIOLATION') known=$(echo "$out" | grep -c '^KNOWN-FINDING') inconclusive=$(echo "$out" | grep -c 'INCONCLUSIVE')"
done
