#!/usr/bin/env python3
"""run the repository's pinned suite (guard off) in a given tree and compare with BASELINE.json's stable_pass list"""
import json, subprocess, sys, os, tempfile, xml.etree.ElementTree as ET
tree = sys.argv[1] if len(sys.argv) > 1 else "/repo"
base = json.load(open("/root/.vp/BASELINE.json"))
fd, path = tempfile.mkstemp(suffix=".xml"); os.close(fd)
env = dict(os.environ); env.pop("LOCALCIDER_VERIF", None); env["MPLBACKEND"] = "Agg"
subprocess.run(["/venv/bin/python", "-m", "pytest", "-q", "-p", "no:cacheprovider", "--timeout=900", "--continue-on-collection-errors",
                "--junitxml=" + path], cwd=tree, env=env, stdout=subprocess.DEVNULL, stderr=subprocess.DEVNULL)
passed = set()
for tc in ET.parse(path).getroot().iter("testcase"):
    if not any(c.tag in ("failure", "error", "skipped") for c in tc):
        passed.add("%s::%s" % (tc.get("classname").replace(".", ".", 99).rsplit(".", 1)[0] + "." + tc.get("classname").rsplit(".", 1)[1], tc.get("name")))
os.unlink(path)
missing = [t for t in base["stable_pass"] if t not in passed]
print("stable tests passing: %d/%d" % (len(base["stable_pass"]) - len(missing), len(base["stable_pass"])))
for t in missing:
    print("  NOT PASSING:", t)
sys.exit(1 if missing else 0)
