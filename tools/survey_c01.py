#!/usr/bin/env python3
"""development tool (never run by a check): survey of compositions whose kappa exceeds 1, with the solver-maximised ratio.
usage: PYTHONPATH=/verif:/repo .venv/bin/python tools/survey_c01.py NMAX  -> prints JSON entries"""
import sys, json, multiprocessing as mp
sys.setrecursionlimit(20000)


def work(it):
    import props.c01 as C
    try:
        r = C.run_item(it, survey=True)
        return it["name"], r.get("survey"), r["inconclusive"]
    except Exception as ex:
        return it["name"], None, ["error %s" % ex]


if __name__ == "__main__":
    from vf.sx import comp_items
    nmax = int(sys.argv[1])
    its = comp_items(1, nmax)
    out = []
    with mp.Pool(16) as p:
        for name, sv, inc in p.imap_unordered(work, its):
            if inc:
                print("INCONCLUSIVE", name, inc, file=sys.stderr)
            if sv and sv["max_ratio"] is not None:
                out.append(sv)
                print(name, sv, file=sys.stderr)
    out.sort(key=lambda e: tuple(int(x) for x in e["key"][5:].split(","))[::-1])
    json.dump(out, sys.stdout, indent=1)
