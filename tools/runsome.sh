#!/bin/sh
# usage: tools/runsome.sh <tier> C08 C09 ...
cd "$(dirname "$0")/.."
TIER=$1; shift
for id in "$@"; do
  s=$(date +%s)
  out=$(./check $id --tier $TIER 2>&1); rc=$?
  e=$(date +%s)
  echo "$out" | grep "^$id \[" | cut -c1-260
  echo "   exit=$rc wall=$((e-s))s violations=$(echo "$out" | grep -c '^VIOLATION') known=$(echo "$out" | grep -c '^KNOWN-FINDING') inconclusive=$(echo "$out" | grep -c 'INCONCLUSIVE')"
done
