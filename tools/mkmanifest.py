#!/usr/bin/env python3
"""regenerate /verif/MANIFEST.json from the table below (keeps claimed / not-applicable lists consistent)"""
import json, os
ROOT = os.path.dirname(os.path.dirname(os.path.abspath(__file__)))

TRUST = ("trusted base: the symx interpreter (/verif/symx, validated on every run by evaluating each encoding under concrete assignments "
         "against the native result of the real function), z3 5.1.0 (and cvc5 1.0.3 where named), the fixed oracle in /verif/oracle, "
         "CPython/numpy for the case-wise (FD) evaluation of float operations and for the native replay of counterexamples. ")

CLAIMED = {
    "C02": dict(
        technique="bounded symbolic execution of the real source (symx) + SMT (z3): per composition, all 20-letter sequences in one query",
        text="For every length up to the bound and every composition (n+, n-), get_delta (entered through SequenceParameters) is executed symbolically "
             "from its source on a sequence of symbolic residues; z3 shows |delta_impl - delta_DasPappu| <= 1e-9 for all sequences of that composition. "
             "Bounded: holds for N <= bound only.",
        note=TRUST + "Float accumulation over blobs modelled in exact rationals of the doubles (tolerance 1e-9)."),
    "C04": dict(
        technique="bounded symbolic execution of the real source (symx) + SMT (z3) with summand-wise lemma cut",
        text="Every getter of the property is executed symbolically on symbolic 20-letter sequences; table-sum getters are proved equal to the "
             "published per-residue sum for all 20^N sequences per length (one query per getter and length, decomposed into per-residue lemmas); "
             "count-type getters are proved per class-count item. Bounded by N.",
        note=TRUST + "Reference tables are exact decimals of the published values; tolerance 1e-9 (1e-6 for molecular weight)."),
    "C07": dict(
        technique="bounded symbolic execution of the real source (symx) + SMT (z3) with summand-wise lemma cut",
        text="get_SCD executed symbolically on N symbolic residues; z3 proves |SCD_impl - Sawle-Ghosh sum| <= 1e-9 for all 20^N sequences per length "
             "(pairwise lemmas + linear combination), and SCD == 0 with fewer than two charged residues. Bounded by N.",
        note=TRUST + "sqrt values are the correctly rounded doubles; double sum modelled in exact rationals."),
    "C08": dict(
        technique="bounded symbolic execution of the real source: FD/z3 at sequence level, IEEE binary64 SMT theory (cvc5) at composition level",
        text="(a) get_phasePlotRegion executed symbolically on symbolic sequences for every composition with N <= bound: result entailed equal to the "
             "rational threshold cascade, no raising path feasible. (b) phasePlotRegion/FCR/NCPR/Fplus/Fminus encoded from source over bit-vector "
             "(n+, n-, N) in binary64 theory: cvc5 proves agreement with the exact rational classifier and unreachability of both defensive raises for every N up to 100 (quick) / 1000 (thorough).",
        note=TRUST + "For (b) the three counting methods and len are replaced by symbolic integers (stub listed in evidence assumptions)."),
    "C10": dict(
        technique="bounded symbolic execution of the real source (symx) + SMT (z3)",
        text="The four profile getters and the composition profile are executed symbolically for every window 1..N+3 on symbolic sequences "
             "(and symbolic user groups); every entry is proved equal to the window statistic at position i+floor((w-1)/2) or 0 in the flanks, "
             "w=N equals the global getter on the same symbolic object, w>N ends in an exception on every path, delta equals the mean squared deviation of the sigma profiles. Bounded by N.",
        note=TRUST),
    "C12": dict(
        technique="bounded symbolic execution of the real source (symx) + SMT (z3)",
        text="reduce_alphabet (through get_reduced_alphabet_sequence) executed symbolically: for the 12 sizes every output position equals the representative "
             "of the documented group of the input residue (all sequences up to the bound), the returned alphabet has one representative per group; integer sizes 0..25 "
             "outside the 12 are rejected on every path; user dictionaries with symbolic presence/values are accepted exactly when total and valid and are applied residue by residue.",
        note=TRUST),
}

CLAIMED.update({
    "C01": dict(
        technique="bounded symbolic execution of the real source (symx) + SMT (z3), per composition; known findings keyed by composition with solver-maximised ratio",
        text="get_kappa, get_delta and get_deltaMax are executed symbolically on symbolic sequences of every composition up to the bound; z3 decides, for all arrangements "
             "and spellings at once, the structure kappa = delta/deltaMax with the (1,1.1) clamp and the -1 sentinel, deltaMax == 0 => no arrangement has variance, kappa >= 0, "
             "and kappa <= 1 (compositions where the real code exceeds 1 are recorded known findings with the maximal ratio; exceeding it, or any other composition exceeding 1, is a violation).",
        note=TRUST + "delta/deltaMax modelled as a real quotient with a 1e-9 guard band at the clamp thresholds; counterexamples replayed with real floats."),
    "C03": dict(
        technique="bounded symbolic execution of the real source (symx) + SMT (z3), per composition",
        text="get_deltaMax with and without the permutant executed symbolically for every composition up to the bound (arrangement and spelling symbolic): the value is entailed "
             "identical for every member of the composition and equals the exact maximum over the documented candidate family; the returned permutant is proved to be a rearrangement "
             "of the (symbolic) input with delta equal to delta-max.",
        note=TRUST + "delta of the permutant is the oracle's exact definition on the permutant's symbolic classes."),
    "C05": dict(
        technique="2-safety: two symbolic executions of the real source in one SMT query (z3), summand-wise lemma cut",
        text="delta, deltaMax, kappa, SCD and Omega are executed symbolically on s and on T(s) (respelling within charge classes with a symbolic choice per position, reversal, "
             "charge inversion) and proved equal for all sequences within the bound (per composition for kappa/deltaMax/Omega).",
        note=TRUST + "kappa/Omega equality is not asserted within 1e-9 of the clamp thresholds (documented discontinuity)."),
    "C06": dict(
        technique="bounded symbolic execution of the real source (symx) + SMT (z3); symbolic group partitions",
        text="Omega vs kappa of the recoded sequence vs kappa_X(PEDKR); kappa vs kappa_X(ED,KR) in several spellings; kappa_X under swap of disjoint symbolic groups and under "
             "complement of a symbolic group; rejection of non-amino-acid members on every path; Omega_sequence positionwise. All with the real kappa code on both sides, per recoded composition.",
        note=TRUST),
})

CLAIMED.update({
    "C13": dict(
        technique="bounded symbolic execution of the real source (symx) + SMT (z3) over symbolic strings",
        text="SequenceParameters(str) executed symbolically on strings of symbolic characters (128 ASCII + non-ASCII behaviour-class representatives): on every path, "
             "accepted <=> the upper-cased, whitespace-free string is a non-empty word over the 20 letters; then sequence, length, len() and the complete object state equal those of an "
             "object built from the normalised word; non-strings rejected. Bounded by string length.",
        note=TRUST + "Each character case is a real Python str, so upper()/isspace() are CPython's."),
    "C16": dict(
        technique="inductive step: symbolic execution of one API call from an arbitrary valid state (symx) + SMT (z3); unbounded symbolic integer positions",
        text="From an arbitrary duplicate-free list of valid sites on a symbolic sequence, one set_phosphosites call with unbounded symbolic integer positions (int, list, tuple) "
             "or clear is executed symbolically; z3 proves the stored list is previous ++ requested in-range S/T/Y positions in order without repeats, no exception for any integer, "
             "sequence unchanged, phosphosequence has E exactly there; kappa_after and the 2^k distribution are the getters of the substituted sequences in binary order.",
        note=TRUST + "kappa of derived sequences is an uninterpreted function of the derived string in this check."),
    "C20": dict(
        technique="bounded symbolic execution of the real source (symx) + SMT (z3); inductive step for the palette",
        text="get_HTMLColorString executed symbolically on symbolic sequences with an arbitrary valid palette: the string equals the expected markup piece by piece; "
             "set_HTMLColorResiduePalette with symbolic dictionaries from an arbitrary valid palette: accepted <=> total mapping onto the 17 names, then palette == dictionary; rejected => exception and palette unchanged.",
        note=TRUST),
})

CLAIMED.update({
    "C11": dict(
        technique="bounded symbolic execution of the real source (symx) + SMT (z3), summand-wise lemma cut; integer-arithmetic encoding of the position row",
        text="get_linear_complexity executed symbolically for the three types on symbolic sequences: K = floor((N-w)/s)+1 columns, strictly increasing positions in 1..N, values in [0,1], "
             "each value's encoding mentions only its own window's residues; WF proved equal to the Shannon entropy (base alphabet size) of the reduced window composition for all 12 alphabets; "
             "unknown types and w > N end in an exception on every path; get_indexed_complexity_vector proved (symbolic sequence length up to 10000, K enumerated) to give K in-range, strictly increasing positions.",
        note=TRUST + "math.log evaluated per count case; np.arange modelled as the arithmetic progression it denotes."),
    "C14": dict(
        technique="bounded symbolic execution of the real source (symx) + SMT (z3) over symbolic file contents (open/readlines stubbed)",
        text="parseSeqFile and SequenceParameters(sequenceFile=...) executed symbolically on files of L lines x M symbolic printable-ASCII characters: on every path accepted <=> reference grammar, "
             "the result equals the concatenated residue letters, and the file-built object has the state of the object built from that string; rejected => grammar violated.",
        note=TRUST + "File I/O replaced by a stub returning symbolic lines; nothing asserted where the property is silent (header after content, no residues)."),
})

CLAIMED.update({
    "C09": dict(
        technique="bounded symbolic execution of the real source (symx) + SMT (z3): symbolic real pH, 10**x as an uninterpreted function with contract axioms, per-residue lemma cut; pI per composition with entailed bisection",
        text="get_NCPR/FCR/mean_net_charge/fraction_expanding(pH) executed symbolically with a symbolic real pH on symbolic sequences: equal to the Henderson-Hasselbalch sums with the EMBOSS pKa table "
             "(1/(1+10^x) uninterpreted, shared with the reference), NCPR non-increasing in pH, |NCPR| <= FCR <= titratable/N, FER = FCR + proline fraction, pH outside [0,14] rejected on every path; "
             "get_isoelectric_point executed for every composition of titratable residue types up to the bound: no raising path, 7.0 when nothing titrates, charge at the returned pH within 0.02.",
        note=TRUST + "10**x only through positivity/monotonicity in the symbolic-pH obligations; counterexamples replayed numerically."),
    "C15": dict(
        technique="bounded symbolic execution of the real source (symx) + SMT (z3): four histories over the same symbolic sequence compared in one query set",
        text="48 read-only queries are executed symbolically on a symbolic sequence (composition fixed) in four histories -- fresh objects in a fresh process, fresh objects after other live objects were "
             "analysed, and one object queried in forward and in reverse order -- and every value is proved equal to the fresh-object value; stored sequence and phosphosite list proved unchanged.",
        note=TRUST + "Each ordered pair of queries occurs in one of the two chains; arbitrary repetition patterns are outside. Counterexamples replayed natively in a clean subprocess."),
    "C17": dict(
        technique="bounded symbolic execution of the real source (symx) + SMT (z3) with the RNG as a nondeterministic stub (symbolic permutations / samples / integers)",
        text="full_shuffle (every frozen set), get_shuffled_sequence, get_permutant, swapRes (symbolic indices), swapRandChargeRes and permute_block_swap executed symbolically on symbolic sequences with "
             "random.Random replaced by arbitrary outcomes: the child is a rearrangement, frozen positions keep their residue, length / charge pattern equal those of a fresh object of the child's sequence, "
             "carried delta-max is the parent's or empty, the parent is unchanged, no exception on any path (shuffles and swaps).",
        note=TRUST + "permute_cluster_charges is outside (not encodable within reach); the block move's disregard of `frozen` is a recorded known finding."),
})

CLAIMED.update({
    "C18": dict(
        technique="inductive step: the body of the Wang-Landau loop taken from the AST of run_normal_WL is executed symbolically once from an arbitrary state (symx) + SMT (z3); exp/log/sqrt uninterpreted; RNG and moves nondeterministic",
        text="From arbitrary g, H, f > 1, walker bin, counters and an arbitrary proposal kappa and uniform draws, one loop iteration is proved to follow the update rule: out-of-range proposals are never accepted "
             "and not counted; in-range proposals are accepted exactly when the draw is below min(1, exp(g_old - g_new)); ln f and 1 are added at the occupied bin only; f -> sqrt f and histogram reset exactly at a "
             "scheduled check with every bin >= flatcrit x mean; the loop continues exactly while f > convergence; bin centres are midpoints; returned array / DOS files carry (centres, g). "
             "Real seeded runs are checked step by step against the same rule through the guarded trace hook.",
        note=TRUST + "Whole-run convergence and sampling statistics are outside; the moves themselves are C17's subject."),
    "C19": dict(
        technique="symbolic execution of the real plotting code (symx) against a recording pyplot stub + SMT (z3) for the region geometry",
        text="All 12 plots-module entry points, the 4 diagram/Uversky object methods and the 8 linear-profile methods are executed symbolically (symbolic coordinates / sequences, symbolic limits) with pyplot "
             "replaced by a recorder: markers at the true coordinates, requested title, limits, labels, legend, savefig arguments, figure returned with getFig; bar positions and heights equal the get_linear_* profile. "
             "The polygons recorded from finalize_DasPappu are proved to contain every real point (f+, f-) of the region the exact classifier assigns.",
        note=TRUST + "What matplotlib renders for the recorded calls is outside; counterexamples are replayed with real matplotlib (Agg)."),
})

REASON_PENDING = "check not built yet (framework under construction); see DESIGN.md section 5 for the plan"


def main():
    props = [json.loads(l) for l in open(os.path.join(ROOT, "properties.jsonl"))]
    checks = []
    na = []
    for p in props:
        pid = p["id"]
        if pid in CLAIMED and os.path.exists(os.path.join(ROOT, "props", pid.lower() + ".py")):
            c = CLAIMED[pid]
            checks.append(dict(
                property_id=pid,
                quick_cmd="./check %s --tier quick" % pid,
                thorough_cmd="./check %s --tier thorough" % pid,
                evidence_file="evidence/%s.json" % pid,
                replay_cmd_template="./check %s --replay {path}" % pid,
                engine="symx",
                level_claimed=dict(category="model_checking", text=c["text"], design_ref="DESIGN.md section 5 (%s)" % pid),
                level_note=c["note"],
                technique=c["technique"],
            ))
        else:
            na.append(dict(property_id=pid, reason=NA.get(pid, REASON_PENDING)))
    m = dict(
        version=1,
        setup_cmd="sh /verif/setup.sh",
        hooks=dict(
            guard="LOCALCIDER_VERIF",
            enable="LOCALCIDER_VERIF=1 in the environment of the check process (pure Python; /repo is imported from source, no build step)",
            baseline_off_cmd="cd /repo && env -u LOCALCIDER_VERIF /venv/bin/python -m pytest -ra -q -p no:cacheprovider --timeout=900 --continue-on-collection-errors",
            source_commits=HOOK_COMMITS,
            add_only=True,
        ),
        engines=[dict(name="symx", path="symx/", serves_properties=sorted(c["property_id"] for c in checks),
                      kind_free_text="source-level merging symbolic interpreter for the Python subset used by localCIDER; "
                                     "encodes the real functions from inspect.getsource at run time into z3 (cvc5 for binary64 queries); "
                                     "counterexamples are replayed natively before they are reported")],
        checks=checks,
        notes="All checks: ./check <ID> --tier quick|thorough; evidence in evidence/<ID>.json; replays in replays/<ID>/. "
              "Known findings: known_findings.json.",
        not_applicable=na,
    )
    json.dump(m, open(os.path.join(ROOT, "MANIFEST.json"), "w"), indent=1)
    print("claimed:", [c["property_id"] for c in checks])
    print("not applicable:", [n["property_id"] for n in na])


NA = {}
HOOK_COMMITS = ["c966d03"]

if __name__ == "__main__":
    main()
