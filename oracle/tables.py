"""
Fixed reference tables, written from the publications / localCIDER documentation at the
pinned commit.  Nothing in this file is read from /repo at run time.
"""
from fractions import Fraction as F

AA = "ACDEFGHIKLMNPQRSTVWY"            # the 20 standard one-letter codes, alphabetical
POS = "KR"
NEG = "DE"
NEUT = "".join(a for a in AA if a not in POS + NEG)
EXPANDING = "DEKRP"
DISORDER_PROMOTING = "TAGRDHQKSEP"
OMEGA_SET = "PEDKR"
STY = "STY"


def charge(a):
    return 1 if a in POS else (-1 if a in NEG else 0)


# Kyte & Doolittle 1982 (J Mol Biol 157:105)
KD = dict(I=4.5, V=4.2, L=3.8, F=2.8, C=2.5, M=1.9, A=1.8, G=-0.4, T=-0.7, S=-0.8, W=-0.9, Y=-1.3, P=-1.6,
          H=-3.2, E=-3.5, Q=-3.5, D=-3.5, N=-3.5, K=-3.9, R=-4.5)
# decimal-exact versions (tenths) for exact rational evaluation
KD_SHIFTED_EXACT = {a: F(round((v + 4.5) * 10), 10) for a, v in KD.items()}        # 0 .. 9
KD_UVERSKY_EXACT = {a: v / 9 for a, v in KD_SHIFTED_EXACT.items()}                   # 0 .. 1

# Wimley & White 1996 whole-residue interface scale as used by localCIDER docs
WW = dict(I=0.31, V=-0.07, L=0.56, F=1.13, C=0.24, M=0.23, A=-0.17, G=-0.01, T=-0.14, S=-0.13, W=1.85, Y=0.94,
          P=-0.45, H=-0.96, E=-2.02, Q=-0.58, D=-1.23, N=-0.42, K=-0.99, R=-0.81)
WW_EXACT = {a: F(round(v * 100), 100) for a, v in WW.items()}

# PPII propensities (Tomasso et al. 2016 tables of Elam/Hilser, Rucker/Creamer, Shi/Kallenbach)
PPII = dict(
    hilser=dict(I=0.39, V=0.39, L=0.24, F=0.17, C=0.25, M=0.36, A=0.37, G=0.13, T=0.32, S=0.24, W=0.25, Y=0.25,
                P=1.00, H=0.20, E=0.42, Q=0.53, D=0.30, N=0.27, K=0.56, R=0.38),
    creamer=dict(I=0.50, V=0.49, L=0.58, F=0.58, C=0.55, M=0.55, A=0.61, G=0.58, T=0.53, S=0.58, W=0.58, Y=0.58,
                 P=0.67, H=0.55, E=0.61, Q=0.66, D=0.63, N=0.55, K=0.59, R=0.61),
    kallenbach=dict(I=0.519, V=0.743, L=0.574, F=0.639, C=0.557, M=0.498, A=0.818, G=0.500, T=0.553, S=0.774,
                    W=0.764, Y=0.630, P=1.000, H=0.428, E=0.684, Q=0.654, D=0.552, N=0.667, K=0.581, R=0.638),
)
PPII_EXACT = {m: {a: F(round(v * 1000), 1000) for a, v in t.items()} for m, t in PPII.items()}

# residue molecular weights (Da), free amino acid; chain = sum - 18 per peptide bond
MW = dict(I=131.2, V=117.1, L=131.2, F=165.2, C=121.2, M=149.2, A=89.1, G=75.1, T=119.1, S=105.1, W=204.2, Y=181.2,
          P=115.1, H=155.2, E=147.1, Q=146.2, D=133.1, N=132.1, K=146.2, R=174.2)
MW_EXACT = {a: F(round(v * 10), 10) for a, v in MW.items()}

# EMBOSS pKa values
PKA = dict(C=8.5, Y=10.1, H=6.5, E=4.1, D=3.9, K=10.0, R=12.5)
TITR_POS = "KRH"
TITR_NEG = "DECY"

# the 17 standard HTML colour names
HTML_COLOURS = ['aqua', 'black', 'blue', 'fuchsia', 'gray', 'green', 'lime', 'maroon', 'navy', 'olive', 'orange',
                'purple', 'red', 'silver', 'teal', 'white', 'yellow']
DEFAULT_PALETTE = dict(A='black', C='black', D='red', E='red', F='orange', G='green', H='green', I='black', K='blue',
                       L='black', M='black', N='green', P='fuchsia', Q='green', R='blue', S='green', T='green',
                       V='black', W='orange', Y='orange')

# documented reduced alphabets (docstring of get_reduced_alphabet_sequence / reduce_alphabet)
ALPHABETS = {
    2: ["LVIMCAGSTPFYW", "EDNQKRH"],
    3: ["LVIMCAGSTP", "FYW", "EDNQKRH"],
    4: ["LVIMC", "AGSTP", "FYW", "EDNQKRH"],
    5: ["LVIMC", "ASGTP", "FYW", "EDNQ", "KRH"],
    6: ["LVIM", "ASGT", "PHC", "FYW", "EDNQ", "KR"],
    8: ["LVIMC", "AG", "ST", "P", "FYW", "EDNQ", "KR", "H"],
    10: ["LVIM", "C", "A", "G", "ST", "P", "FYW", "EDNQ", "KR", "H"],
    11: ["LVIM", "C", "A", "G", "ST", "P", "FYW", "ED", "NQ", "KR", "H"],
    12: ["LVIM", "C", "A", "G", "ST", "P", "FY", "W", "EQ", "DN", "KR", "H"],
    15: ["LVIM", "C", "A", "G", "S", "T", "P", "FY", "W", "E", "Q", "D", "N", "KR", "H"],
    18: ["LM", "VI", "C", "A", "G", "S", "T", "P", "F", "Y", "W", "E", "D", "N", "Q", "K", "R", "H"],
    20: list(AA),
}
ALPHABET_SIZES = sorted(ALPHABETS)


def alphabet_group(size, a):
    for g in ALPHABETS[size]:
        if a in g:
            return g
    raise KeyError(a)
