"""
Reference definitions (exact rational Python + z3 builders).  Written from the publications
and the localCIDER documentation; never reads /repo.
"""
from fractions import Fraction as F
import math
import z3
from . import tables as T


# ---------------------------------------------------------------- exact Python references
def classes(seq):
    return [T.charge(a) for a in seq]


def sigma_exact(npos, nneg, n):
    if npos + nneg == 0:
        return F(0)
    fp, fm = F(npos, n), F(nneg, n)
    return (fp - fm) ** 2 / (fp + fm)


def delta_form_exact(q, b):
    n = len(q)
    if b > n:
        return F(0)
    sig = sigma_exact(q.count(1), q.count(-1), n)
    nblobs = n - b + 1
    tot = F(0)
    for i in range(nblobs):
        w = q[i:i + b]
        tot += (sig - sigma_exact(w.count(1), w.count(-1), b)) ** 2
    return tot / nblobs


def delta_exact(seq):
    q = classes(seq)
    return (delta_form_exact(q, 5) + delta_form_exact(q, 6)) / 2


def delta_of_pattern(q):
    return (delta_form_exact(list(q), 5) + delta_form_exact(list(q), 6)) / 2


def scd_exact_float(seq):
    """Sawle-Ghosh SCD; sqrt is irrational, so the reference uses the correctly rounded double of each sqrt
    and sums exactly (Fraction of doubles); compared with a tolerance"""
    q = classes(seq)
    n = len(q)
    tot = F(0)
    for m in range(1, n):
        for k in range(0, m):
            if q[m] and q[k]:
                tot += q[m] * q[k] * F(math.sqrt(m - k))
    return tot / n


# ---------------------------------------------------------------- z3 builders
def _cnt(conds):
    conds = list(conds)
    if not conds:
        return z3.IntVal(0)
    if len(conds) == 1:
        return z3.If(conds[0], 1, 0)
    return z3.Sum([z3.If(c, 1, 0) for c in conds])


def table2(p, n, size, f):
    """ite-chain over all (a,b), a+b<=size, of the exact value f(a,b) selected by p==a, n==b"""
    acc = None
    for a in range(size, -1, -1):
        for b in range(size - a, -1, -1):
            val = z3.RealVal(f(a, b))
            acc = val if acc is None else z3.If(z3.And(p == a, n == b), val, acc)
    return acc


def delta_z3_fixed_comp(pos, neg, npos, nneg):
    """delta as a z3 Real for per-position class indicators pos[i], neg[i] (z3 Bools) of a sequence whose
    composition is (npos, nneg): sum of table lookups, linear"""
    n = len(pos)
    sig = sigma_exact(npos, nneg, n)
    total = z3.RealVal(0)
    terms = []
    for b in (5, 6):
        if b > n:
            continue
        nblobs = n - b + 1
        for i in range(nblobs):
            p = _cnt(pos[i:i + b])
            q = _cnt(neg[i:i + b])
            terms.append(table2(p, q, b, lambda a, c: (sig - sigma_exact(a, c, b)) ** 2 / nblobs / 2))
    return (z3.Sum(terms) if len(terms) > 1 else (terms[0] if terms else z3.RealVal(0))), terms


def scd_z3(pos, neg):
    n = len(pos)
    terms = []
    for m in range(1, n):
        for k in range(0, m):
            s = z3.RealVal(F(math.sqrt(m - k)) / n)
            same = z3.Or(z3.And(pos[m], pos[k]), z3.And(neg[m], neg[k]))
            opp = z3.Or(z3.And(pos[m], neg[k]), z3.And(neg[m], pos[k]))
            terms.append(z3.If(same, s, z3.If(opp, -s, z3.RealVal(0))))
    return (z3.Sum(terms) if len(terms) > 1 else (terms[0] if terms else z3.RealVal(0))), terms


# ---------------------------------------------------------------- documented delta-max candidate family
def deltamax_family(npos, nneg, n):
    """largest delta among the documented family of maximally segregated arrangements.
    Returns (max over the family [Fraction], list of maxima that are acceptable where the documentation is ambiguous)."""
    n0 = n - npos - nneg
    P, M, Z = 1, -1, 0

    def d(pattern):
        return delta_of_pattern(pattern)
    if npos + nneg == 0:
        return F(0), [F(0)]
    if npos == 0 or nneg == 0:
        c = P if nneg == 0 else M
        nc = npos + nneg
        # the minority block slid through the majority
        slide_charged = [d([Z] * k + [c] * nc + [Z] * (n0 - k)) for k in range(0, n0 + 1)]
        slide_neutral = [d([c] * k + [Z] * n0 + [c] * (nc - k)) for k in range(0, nc + 1)]
        if n0 > nc:
            return max(slide_charged), [max(slide_charged)]
        if n0 < nc:
            return max(slide_neutral), [max(slide_neutral)]
        return max(slide_neutral), [max(slide_neutral), max(slide_charged)]      # equal blocks: either may slide
    if n0 == 0:
        if npos > nneg:
            c = [d([P] * k + [M] * nneg + [P] * (npos - k)) for k in range(0, npos + 1)]
            return max(c), [max(c)]
        if nneg > npos:
            c = [d([M] * k + [P] * npos + [M] * (nneg - k)) for k in range(0, nneg + 1)]
            return max(c), [max(c)]
        c1 = [d([M] * k + [P] * npos + [M] * (nneg - k)) for k in range(0, nneg + 1)]
        c2 = [d([P] * k + [M] * nneg + [P] * (npos - k)) for k in range(0, npos + 1)]
        return max(c1), [max(c1), max(c2)]
    best = None
    if n0 >= 18:
        for st in range(0, 7):
            for en in range(0, 7):
                mid = n0 - st - en
                v = d([Z] * st + [P] * npos + [Z] * mid + [M] * nneg + [Z] * en)
                best = v if best is None or v > best else best
    else:
        for mid in range(0, n0 + 1):
            for st in range(0, n0 - mid + 1):
                v = d([Z] * st + [P] * npos + [Z] * mid + [M] * nneg + [Z] * (n0 - st - mid))
                best = v if best is None or v > best else best
    return best, [best]
