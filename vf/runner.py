"""
Work-item runner shared by all property checks.

A property module (props/cNN.py) provides
    ID, TITLE, ASSUMPTIONS (list[str]), OUTSIDE (list[str])
    items(tier, seed)      -> list of picklable dicts, each with a unique "name" (+ optional "timeout")
    run_item(item)         -> result dict (see new_result())
    replay(cex)            -> (violates: bool, detail: str)    native run of the real code against the fixed oracle
    finding_key(cex)       -> str   identity used to match known findings (optional)
Items run in separate processes (16 cores); each process builds its encoding from /repo's
current source.  Counterexample candidates are replayed natively inside the worker; only
reproducing ones become violations.
"""
import os, sys, json, time, hashlib, multiprocessing as mp, traceback, importlib, queue

ROOT = os.path.dirname(os.path.dirname(os.path.abspath(__file__)))
EVID = os.path.join(ROOT, "evidence")
REPLAYS = os.path.join(ROOT, "replays")
KNOWN = os.path.join(ROOT, "known_findings.json")
NCPU = int(os.environ.get("VERIF_JOBS", "16"))
REPLAY_TIMEOUT = 120


def new_result():
    return dict(
        obligations=0,      # assertion queries posed (one per path x assertion)
        discharged=0,       # ... answered unsat (property holds on that path within the bound)
        trivial=0,          # ... decided without the solver (assertion simplified to true)
        sat=0,              # ... answered sat (counterexample candidates)
        unknown=0,          # ... solver unknown / timeout
        paths=0,            # symbolic paths explored
        merges=0, forks=0, solver_checks=0, solver_s=0.0,
        validated=0,        # translator validations: encoding evaluated under a concrete assignment == native result
        witnesses=0,        # reachability witnesses found (sat for the un-negated harness)
        encoded=[],         # functions whose source was encoded
        samples=[],         # a few of the actual models / obligations
        candidates=[],      # concrete counterexample candidates (dicts) -> replayed natively
        violations=[],      # confirmed (replayed) violations: dict(cex=..., detail=..., key=...)
        mismatches=[],      # candidates that did not reproduce natively (encoding mismatch)
        inconclusive=[],    # reasons
        notes=[],
    )


def _worker(modname, item, conn):
    t0 = time.time()
    try:
        sys.setrecursionlimit(20000)
        mod = importlib.import_module(modname)
        res = mod.run_item(item)
        # replay candidates natively against the real code
        import signal

        def _alarm(signum, frame):
            raise TimeoutError("native replay exceeded %ds" % REPLAY_TIMEOUT)
        signal.signal(signal.SIGALRM, _alarm)
        for cex in res.get("candidates", []):
            try:
                signal.alarm(REPLAY_TIMEOUT)
                try:
                    bad, detail = mod.replay(cex)
                finally:
                    signal.alarm(0)
            except Exception as ex:
                bad, detail = False, "replay raised %s: %s" % (type(ex).__name__, ex)
                res["inconclusive"].append("replay error: %s" % detail)
                continue
            if bad:
                key = mod.finding_key(cex) if hasattr(mod, "finding_key") else None
                res["violations"].append(dict(cex=cex, detail=detail, key=key))
            else:
                res["mismatches"].append(dict(cex=cex, detail=detail))
        res["candidates"] = []
        # safety net: an item the engine could not decide (ENCODING-GAP, solver unknown) still gets its sample inputs replayed
        # natively against the oracle; a concrete disagreement there is a reproducing violation (DESIGN 3.4)
        if res.get("inconclusive") and hasattr(mod, "fallback"):
            n = 0
            try:
                for cex in mod.fallback(item):
                    n += 1
                    bad, detail = mod.replay(cex)
                    if bad:
                        key = mod.finding_key(cex) if hasattr(mod, "finding_key") else None
                        res["violations"].append(dict(cex=cex, detail="[native replay of a sample input; the symbolic item was inconclusive] " + detail, key=key))
                        break
            except Exception as ex:
                res["notes"].append("fallback replay error: %s" % ex)
            res["notes"].append("item inconclusive: %d sample inputs replayed natively" % n)
        res["wall_s"] = time.time() - t0
        conn.send(("ok", res))
    except BaseException as ex:
        conn.send(("err", "%s: %s\n%s" % (type(ex).__name__, ex, traceback.format_exc()[-1500:])))
    finally:
        conn.close()


def run_items(modname, items, default_timeout):
    """run items in parallel processes with hard timeouts; returns {name: ("ok", res) | ("err", msg) | ("timeout", s)}"""
    ctx = mp.get_context("fork")
    pending = list(items)
    running = {}
    out = {}
    while pending or running:
        while pending and len(running) < NCPU:
            it = pending.pop(0)
            pc, cc = ctx.Pipe(duplex=False)
            p = ctx.Process(target=_worker, args=(modname, it, cc), daemon=True)
            p.start()
            cc.close()
            running[it["name"]] = (p, pc, time.time(), it.get("timeout", default_timeout))
        time.sleep(0.02)
        for name in list(running):
            p, pc, t0, to = running[name]
            if pc.poll():
                try:
                    out[name] = pc.recv()
                except EOFError:
                    out[name] = ("err", "worker died without a result")
                p.join(5)
                del running[name]
            elif not p.is_alive():
                if pc.poll():
                    continue
                out[name] = ("err", "worker exited with code %s" % p.exitcode)
                del running[name]
            elif time.time() - t0 > to:
                p.kill()
                p.join(5)
                out[name] = ("timeout", to)
                del running[name]
    return out


def load_known():
    if not os.path.exists(KNOWN):
        return []
    return json.load(open(KNOWN)).get("findings", [])


def _jsonable(x, depth=0):
    from fractions import Fraction
    if isinstance(x, (str, int, bool)) or x is None:
        return x
    if isinstance(x, float):
        return x if x == x and abs(x) != float("inf") else repr(x)
    if isinstance(x, Fraction):
        return float(x)
    if isinstance(x, dict):
        return {str(k): _jsonable(v, depth + 1) for k, v in x.items()}
    if isinstance(x, (list, tuple, set, frozenset)):
        return [_jsonable(v, depth + 1) for v in x]
    return repr(x)


def main(modname, argv):
    import argparse
    mod = importlib.import_module(modname)
    ap = argparse.ArgumentParser(prog="check " + mod.ID)
    ap.add_argument("--tier", default=os.environ.get("VERIF_TIER", "quick"), choices=["quick", "thorough"])
    ap.add_argument("--replay", default=None)
    ap.add_argument("--only", default=None, help="run only items whose name contains this text")
    a = ap.parse_args(argv)
    seed = int(os.environ.get("VERIF_SEED", "0") or 0)
    pid = mod.ID
    if a.replay:
        cex = json.load(open(a.replay))["cex"]
        bad, detail = mod.replay(cex)
        print("replay %s: %s -- %s" % (a.replay, "VIOLATES" if bad else "holds", detail))
        return 1 if bad else 0
    t0 = time.time()
    os.environ["VERIF_TIER_EFFECTIVE"] = a.tier
    items = mod.items(a.tier, seed)
    if a.only:
        items = [i for i in items if a.only in i["name"]]
    default_timeout = getattr(mod, "ITEM_TIMEOUT", {}).get(a.tier, 600)
    results = run_items(modname, items, default_timeout)
    agg = new_result()
    agg["encoded"] = set()
    per_item = []
    n_ok = 0
    for it in items:
        st, res = results[it["name"]]
        if st != "ok":
            agg["inconclusive"].append("%s: %s" % (it["name"], ("timeout after %ss" % res) if st == "timeout" else ("harness error: " + str(res).split("\n")[0][:300] + " | " + str(res)[-700:].replace("\n", " / "))))
            per_item.append(dict(item=it["name"], status=st))
            continue
        n_ok += 1
        for k in ("obligations", "discharged", "trivial", "sat", "unknown", "paths", "merges", "forks", "solver_checks", "validated", "witnesses"):
            agg[k] += res.get(k, 0)
        for k in ("xcheck_agree", "xcheck_undecided"):
            agg[k] = agg.get(k, 0) + res.get(k, 0)
        agg["solver_s"] += res.get("solver_s", 0.0)
        agg["encoded"].update(res.get("encoded", []))
        for k in ("violations", "mismatches", "notes"):
            agg[k].extend(res.get(k, []))
        agg["inconclusive"].extend("%s: %s" % (it["name"], r) for r in res.get("inconclusive", []))
        if len(agg["samples"]) < 12:
            agg["samples"].extend(res.get("samples", [])[:2])
        per_item.append(dict(item=it["name"], status="ok", obligations=res.get("obligations", 0), discharged=res.get("discharged", 0),
                             paths=res.get("paths", 0), wall_s=round(res.get("wall_s", 0), 2)))
    # known findings
    known = [k for k in load_known() if k.get("property") == pid and k.get("status", "open") == "open"]
    known_keys = {k["key"]: k for k in known}
    new_viol = []
    seen_known = {}
    for v in agg["violations"]:
        k = v.get("key")
        if k is not None and k in known_keys and (not hasattr(mod, "within_known") or mod.within_known(known_keys[k], v)):
            seen_known.setdefault(k, v)
        else:
            new_viol.append(v)
    os.makedirs(EVID, exist_ok=True)
    lines = []
    for k, v in seen_known.items():
        lines.append("KNOWN-FINDING: property=%s %s" % (pid, known_keys[k]["what"]))
    replay_paths = []
    seenv = set()
    for v in new_viol:
        h = hashlib.sha1(json.dumps(_jsonable(v["cex"]), sort_keys=True).encode()).hexdigest()[:12]
        if h in seenv:
            continue
        seenv.add(h)
        d = os.path.join(REPLAYS, pid)
        os.makedirs(d, exist_ok=True)
        path = os.path.join(d, h + ".json")
        json.dump(dict(property=pid, cex=_jsonable(v["cex"]), detail=v["detail"]), open(path, "w"), indent=1)
        replay_paths.append(path)
        lines.append("VIOLATION property=%s replay=%s" % (pid, path))
        lines.append("  detail: %s" % v["detail"][:300])
    wall = time.time() - t0
    harness_broken = n_ok == 0 and len(items) > 0
    nontrivial = agg["discharged"] + agg["sat"] + agg["unknown"]
    ev = dict(
        property_id=pid, tier=a.tier, seed=seed, level="model_checking",
        coverage=dict(
            states=max(agg["paths"], 0), transitions=max(agg["obligations"], 0),
            traces_validated_against_impl=agg["validated"],
            samples=_jsonable(agg["samples"]) or ["(no samples)"],
            evaluations=agg["obligations"], distinct_nontrivial=nontrivial,
            rule="one evaluation = one solver obligation (negated assertion on one symbolic path of one work item); "
                 "non-trivial = needed a solver call (not decided by simplification); every obligation covers all values of the "
                 "symbolic inputs inside the item's bound",
            obligations=agg["obligations"], discharged=agg["discharged"] + agg["trivial"],
            obligations_sat=agg["sat"], obligations_unknown=agg["unknown"],
            symbolic_paths=agg["paths"], merges=agg["merges"], forks=agg["forks"],
            solver_feasibility_checks=agg["solver_checks"], solver_time_s=round(agg["solver_s"], 2),
            reachability_witnesses=agg["witnesses"],
            second_solver=dict(solver="cvc5 1.0.3 (binary) on SMT-LIB2 dumps of every 25th discharged query (thorough tier only)",
                               agreements=agg.get("xcheck_agree", 0), undecided_within_60s=agg.get("xcheck_undecided", 0)),
            functions_encoded=sorted(agg["encoded"]),
            bounds=mod.bounds(a.tier) if hasattr(mod, "bounds") else "",
            outside_claim=getattr(mod, "OUTSIDE", []),
            work_items=per_item,
            inconclusive=agg["inconclusive"][:50],
            encoding_mismatches=_jsonable(agg["mismatches"][:10]),
            known_findings_rederived=sorted(seen_known),
            notes=agg["notes"][:30],
            exhaustive=False,
            solver="z3 %s (python API)" % _z3ver(),
        ),
        assumptions=list(getattr(mod, "ASSUMPTIONS", [])),
        wall_s=round(wall, 2),
        violations=len(replay_paths),
    )
    if ev["coverage"]["states"] < 1:
        ev["coverage"]["states"] = 1
    if ev["coverage"]["transitions"] < 1:
        ev["coverage"]["transitions"] = 1
    json.dump(ev, open(os.path.join(EVID, pid + ".json"), "w"), indent=1)
    print("%s [%s] items=%d ok=%d obligations=%d discharged=%d trivial=%d sat=%d unknown=%d paths=%d validated=%d witnesses=%d mismatches=%d inconclusive=%d wall=%.1fs" % (
        pid, a.tier, len(items), n_ok, agg["obligations"], agg["discharged"], agg["trivial"], agg["sat"], agg["unknown"], agg["paths"],
        agg["validated"], agg["witnesses"], len(agg["mismatches"]), len(agg["inconclusive"]), wall))
    for r in agg["inconclusive"][:10]:
        print("  INCONCLUSIVE:", r[:300])
    for mm in agg["mismatches"][:5]:
        print("  ENCODING-MISMATCH:", json.dumps(_jsonable(mm))[:300])
    for l in lines:
        print(l)
    if replay_paths:
        return 1
    if harness_broken:
        print("HARNESS-ERROR: no work item completed")
        return 3
    return 0


def _z3ver():
    try:
        import z3
        return z3.get_version_string()
    except Exception:
        return "?"
