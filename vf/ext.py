"""second solver: cvc5 binary on SMT-LIB2 dumps of z3 assertions"""
import subprocess, tempfile, os, re, time
import z3


def cvc5_check(assertions, get_values=(), timeout_s=600):
    """returns (verdict, {name: int}) ; verdict in sat/unsat/unknown/error"""
    s = z3.Solver()
    for a in assertions:
        s.add(a)
    txt = s.to_smt2()
    txt = "(set-logic ALL)\n(set-option :produce-models true)\n" + txt
    if get_values:
        txt += "(get-value (%s))\n" % " ".join(get_values)
    fd, path = tempfile.mkstemp(suffix=".smt2", prefix="verif_q_")
    os.write(fd, txt.encode())
    os.close(fd)
    t0 = time.time()
    try:
        p = subprocess.run(["cvc5", "--tlimit=%d" % (timeout_s * 1000), path], capture_output=True, text=True, timeout=timeout_s + 30)
        out = p.stdout + p.stderr
    except subprocess.TimeoutExpired:
        return "unknown", {}, time.time() - t0
    finally:
        try:
            os.unlink(path)
        except OSError:
            pass
    dt = time.time() - t0
    if "(error" in out:
        first = out.strip().splitlines()[0] if out.strip() else ""
        if first not in ("sat", "unsat"):
            return "error", {"msg": out[:300]}, dt
    first = out.strip().splitlines()[0] if out.strip() else "unknown"
    if first == "unsat":
        return "unsat", {}, dt
    if first == "sat":
        vals = {}
        for m in re.finditer(r"\((\w+) #b([01]+)\)", out):
            bits = m.group(2)
            v = int(bits, 2)
            if bits[0] == "1":
                v -= 1 << len(bits)
            vals[m.group(1)] = v
        for m in re.finditer(r"\((\w+) \(_ bv(\d+) (\d+)\)\)", out):
            v = int(m.group(2)); w = int(m.group(3))
            if v >= 1 << (w - 1):
                v -= 1 << w
            vals[m.group(1)] = v
        return "sat", vals, dt
    return "unknown", {"msg": out[:200]}, dt
