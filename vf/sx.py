"""helpers shared by the property harnesses (symbolic inputs, queries, translator validation)"""
import time, random
import z3
from fractions import Fraction
from symx import *
from symx.interp import Interp, PyRaise
from oracle import tables as T
from .runner import new_result

AA = T.AA
IDX = {a: i for i, a in enumerate(AA)}


def seeded_rng(x):
    """deterministic generator for the choice of validation samples; VERIF_SEED varies the choice (verdicts do not depend on it)"""
    import os
    return random.Random("%s/%s" % (x, os.environ.get("VERIF_SEED", "0")))


def interp(**kw):
    kw.setdefault("source_roots", ("/repo/",))
    return Interp(**kw)


def sym_sequence(I, N, alphabet=AA, prefix="c"):
    vs, chars = [], []
    for i in range(N):
        v, fd, dom = sym_char("%s%d" % (prefix, i), alphabet)
        I.solver.add(dom)
        I.domains["%s%d" % (prefix, i)] = (v, len(alphabet))
        # valid fact: exactly one per-value atom is 1 (class counts are linear combinations of these atoms)
        I.solver.add(z3.Sum([z3.If(v == k, 1, 0) for k in range(len(alphabet))]) == 1)
        vs.append(v)
        chars.append(fd)
    return vs, SymStr(chars)


def in_set(v, letters, alphabet=AA):
    ix = sorted(alphabet.index(a) for a in letters if a in alphabet)
    if not ix:
        return z3.BoolVal(False)
    return z3.Or(*[v == i for i in ix]) if len(ix) > 1 else v == ix[0]


def is_pos(v):
    return in_set(v, T.POS)


def is_neg(v):
    return in_set(v, T.NEG)


def _lin(c):
    """If(c,1,0) for a guard of the form Or(v == k ...) / v == k written over the per-value atoms If(v == k, 1, 0)"""
    from symx.interp import lin_indicator
    try:
        if z3.is_app(c) and c.decl().kind() == z3.Z3_OP_OR:
            parts = c.children()
        else:
            parts = [c]
        var = None
        vals = []
        for p_ in parts:
            if not (z3.is_app(p_) and p_.decl().kind() == z3.Z3_OP_EQ and z3.is_int_value(p_.arg(1)) and z3.is_const(p_.arg(0))):
                return z3.If(c, 1, 0)
            if var is None:
                var = p_.arg(0)
            elif not var.eq(p_.arg(0)):
                return z3.If(c, 1, 0)
            vals.append(p_.arg(1).as_long())
        if var is None or str(var)[:1] != "c" or not str(var)[1:].isdigit():
            return z3.If(c, 1, 0)
        return lin_indicator(var, len(AA), vals)
    except Exception:
        return z3.If(c, 1, 0)


def count(conds):
    conds = list(conds)
    if not conds:
        return z3.IntVal(0)
    ts = [_lin(c) for c in conds]
    return z3.Sum(ts) if len(ts) > 1 else ts[0]


def composition(vs, npos, nneg):
    """composition constraint with the oracle's classes, plus the (valid, redundant) per-position partition facts
    pos_i + neg_i + neut_i == 1 and the neutral count, which spare the solver a case split per position"""
    return z3.And(count(is_pos(v) for v in vs) == npos, count(is_neg(v) for v in vs) == nneg,
                  count(in_set(v, T.NEUT) for v in vs) == len(vs) - npos - nneg)


def seq_of_model(m, vs, alphabet=AA):
    return "".join(alphabet[m.eval(v, model_completion=True).as_long()] for v in vs)


def assign_seq(vs, seq, alphabet=AA):
    return z3.And(*[v == alphabet.index(c) for v, c in zip(vs, seq)]) if vs else z3.BoolVal(True)


def rv(x):
    """exact z3 real of a python float / Fraction / int"""
    if isinstance(x, float):
        return z3.RealVal(Fraction(x))
    return z3.RealVal(x)


def zreal(v):
    """z3 Real term of a symx numeric value"""
    return as_real(to_sym(v)) if not isinstance(v, Sym) else as_real(v)


def zabs(x):
    return z3.If(x >= 0, x, -x)


def within(x, tol):
    """|x| <= tol without an ite"""
    t = rv(tol) if not z3.is_expr(tol) else tol
    return z3.And(x <= t, -x <= t)


XCHECK_EVERY = 25


class Obl:
    """bookkeeping of obligations for one work item"""

    def __init__(self, I, res, timeout_ms=120000):
        self.I = I
        self.res = res
        self.timeout_ms = timeout_ms

    def prove(self, claim, label, on_model=None, extra=()):
        """claim: z3 Bool that must hold on the current path (path condition is asserted in I.solver).
        returns True if discharged. on_model(model) -> cex dict (or None) when sat."""
        I, res = self.I, self.res
        res["obligations"] += 1
        if isinstance(claim, bool):
            claim = z3.BoolVal(claim)
        neg = z3.simplify(z3.Not(claim))
        if z3.is_false(neg):
            res["trivial"] += 1
            return True
        t = time.time()
        I.solver.push()
        try:
            for e in extra:
                I.solver.add(e)
            I.solver.add(neg)
            r = I.solver.check()
            res["solver_s"] += time.time() - t
            if r == z3.unsat:
                res["discharged"] += 1
                self._second_opinion(label)
                return True
            if r == z3.sat:
                res["sat"] += 1
                m = I.solver.model()
                cex = on_model(m) if on_model else None
                if cex is not None:
                    cex.setdefault("label", label)
                    res["candidates"].append(cex)
                else:
                    res["inconclusive"].append("sat without extractable counterexample: %s" % label)
                return False
            res["unknown"] += 1
            res["inconclusive"].append("solver unknown (%s): %s" % (I.solver.reason_unknown(), label))
            return False
        finally:
            I.solver.pop()

    def _second_opinion(self, label):
        """thorough tier: every K-th discharged query is also decided by the cvc5 binary on the SMT-LIB2 dump of the same
        assertions; a disagreement (or an error line) makes the item inconclusive"""
        import os
        if os.environ.get("VERIF_TIER_EFFECTIVE") != "thorough":
            return
        Obl._n = getattr(Obl, "_n", 0) + 1
        if Obl._n % XCHECK_EVERY != 1:
            return
        try:
            from .ext import cvc5_check
            v, info, dt = cvc5_check(list(self.I.solver.assertions()), (), 60)
        except Exception as ex:
            self.res["notes"].append("second solver not run: %s" % ex)
            return
        self.res["solver_s"] += dt
        if v == "unsat":
            self.res["xcheck_agree"] = self.res.get("xcheck_agree", 0) + 1
        elif v == "sat":
            self.res["inconclusive"].append("SOLVER DISAGREEMENT (z3 unsat, cvc5 sat): %s" % label)
        else:
            self.res["xcheck_undecided"] = self.res.get("xcheck_undecided", 0) + 1

    def witness(self, cond=True, label=""):
        """reachability witness: the path condition (and cond) must be satisfiable"""
        I, res = self.I, self.res
        I.solver.push()
        try:
            if not isinstance(cond, bool):
                I.solver.add(cond)
            elif not cond:
                return False
            r = I.solver.check()
            if r == z3.sat:
                res["witnesses"] += 1
                return I.solver.model()
            res["inconclusive"].append("VACUOUS: reachability witness failed (%s) %s" % (r, label))
            return None
        finally:
            I.solver.pop()


def finish(I, res):
    for k in ("paths", "merges", "forks", "solver_checks"):
        res[k] += I.stats[k]
    res["solver_s"] += I.stats["solver_s"]
    res["encoded"] = sorted(set(res["encoded"]) | I.encoded)
    return res


def close(a, b, tol=1e-12):
    a = float(a)
    b = float(b)
    return abs(a - b) <= tol * max(1.0, abs(a), abs(b))


def deep_close(a, b, tol=1e-12):
    from fractions import Fraction as Fr
    import numpy as np
    if isinstance(a, np.ndarray):
        a = a.tolist()
    if isinstance(b, np.ndarray):
        b = b.tolist()
    if isinstance(a, (list, tuple)) and isinstance(b, (list, tuple)):
        return len(a) == len(b) and all(deep_close(x, y, tol) for x, y in zip(a, b))
    if isinstance(a, dict) and isinstance(b, dict):
        return a.keys() == b.keys() and all(deep_close(a[k], b[k], tol) for k in a)
    if isinstance(a, (int, float, Fr)) and isinstance(b, (int, float, Fr)) and not isinstance(a, bool) and not isinstance(b, bool):
        return close(a, b, tol)
    return a == b


def validate(I, res, value, native, vs, seqs, alphabet=AA, tol=1e-12, label=""):
    """translator validation: evaluate the symbolic `value` under the assignment of each concrete
    sequence in `seqs` (which must satisfy the current path condition) and compare with native(seq)."""
    for seq in seqs:
        I.solver.push()
        try:
            I.solver.add(assign_seq(vs, seq, alphabet))
            if I.solver.check() != z3.sat:
                continue
            m = I.solver.model()
            got = concrete(m, value)
        finally:
            I.solver.pop()
        want = native(seq)
        if deep_close(got, want, tol):
            res["validated"] += 1
        else:
            res["inconclusive"].append("TRANSLATOR-VALIDATION FAILED %s on %s: encoding %r native %r" % (label, seq, got, want))


def sample_seqs(rng, N, k, alphabet=AA, bias="KRDEGSPAY"):
    out = []
    for i in range(k):
        pool = bias if i % 2 == 0 else alphabet
        out.append("".join(rng.choice(pool) for _ in range(N)))
    return out


def explore(I, res, thunk, on_return, cex, label="", on_raise=None, witness_needed=True):
    """run thunk symbolically; on_return(ob, value, witness_model) for each returning path.
    A raising path is a violation candidate unless on_raise(ob, exc, model) handles it."""
    ob = Obl(I, res)
    for pc, out in I.explore(thunk):
        if out[0] == "gap":
            res["inconclusive"].append("ENCODING-GAP %s: %s" % (label, out[1]))
            continue
        m = ob.witness(label=label)
        if m is None:
            continue
        if out[0] == "raise":
            if on_raise is not None:
                on_raise(ob, out[1], m)
                continue
            res["obligations"] += 1
            res["sat"] += 1
            c = cex(m)
            c["label"] = "%s raised %s: %s" % (label, type(out[1]).__name__, str(out[1])[:80])
            res["candidates"].append(c)
            continue
        on_return(ob, out[1], m)
    return ob


def comp_items(nmin, nmax, extra=None):
    out = []
    for N in range(nmin, nmax + 1):
        for a in range(N + 1):
            for b in range(N + 1 - a):
                d = dict(name="N%d_p%d_n%d" % (N, a, b), N=N, npos=a, nneg=b)
                if extra:
                    d.update(extra)
                out.append(d)
    out.sort(key=lambda i: -i["N"])
    return out


def comp_samples(rng, N, a, b, k):
    out = []
    for _ in range(k):
        q = [rng.choice(T.POS) for _ in range(a)] + [rng.choice(T.NEG) for _ in range(b)] + [rng.choice(T.NEUT) for _ in range(N - a - b)]
        rng.shuffle(q)
        out.append("".join(q))
    return out


# ---------------------------------------------------------------------------
# summand-wise lemma cut (DESIGN 3.1): |impl - sum(spec_terms)| <= tol
# ---------------------------------------------------------------------------
def _num(e):
    if z3.is_int_value(e):
        return Fraction(e.as_long())
    if z3.is_rational_value(e):
        return e.as_fraction()
    if z3.is_app(e) and e.decl().kind() == z3.Z3_OP_TO_REAL:
        return _num(e.children()[0])
    if len(z3_consts(e)) == 0:
        s = z3.simplify(e)
        if z3.is_int_value(s):
            return Fraction(s.as_long())
        if z3.is_rational_value(s):
            return s.as_fraction()
    return None


def addends(e, coef=Fraction(1), out=None):
    """flatten a z3 arithmetic term into [(rational coefficient, atom)] (+ constant under atom None)"""
    if out is None:
        out = []
    n = _num(e)
    if n is not None:
        out.append((coef * n, None))
        return out
    k = e.decl().kind() if z3.is_app(e) else None
    ch = e.children() if z3.is_app(e) else []
    if k == z3.Z3_OP_ADD:
        for c in ch:
            addends(c, coef, out)
    elif k == z3.Z3_OP_SUB:
        addends(ch[0], coef, out)
        for c in ch[1:]:
            addends(c, -coef, out)
    elif k == z3.Z3_OP_UMINUS:
        addends(ch[0], -coef, out)
    elif k == z3.Z3_OP_TO_REAL and z3.is_app(ch[0]) and ch[0].decl().kind() in (z3.Z3_OP_ADD, z3.Z3_OP_SUB):
        addends(ch[0], coef, out)
    elif k == z3.Z3_OP_MUL and len(ch) == 2 and _num(ch[0]) is not None:
        addends(ch[1], coef * _num(ch[0]), out)
    elif k == z3.Z3_OP_MUL and len(ch) == 2 and _num(ch[1]) is not None:
        addends(ch[0], coef * _num(ch[1]), out)
    elif k == z3.Z3_OP_DIV and _num(ch[1]) not in (None, 0):
        addends(ch[0], coef / _num(ch[1]), out)
    else:
        out.append((coef, e))
    return out


def _real(e):
    return z3.ToReal(e) if e.sort() == z3.IntSort() else e


class SumCut:
    """summand-wise lemma cut for |impl - spec| <= tol (see prove_sum_close); keeps the abstraction so that further
    claims can be derived from the proved lemmas (derive)."""

    def __init__(self, ob, impl, spec_terms, tol, spec_const=0):
        self.ob = ob
        self.impl = impl
        self.tol = tol
        self.spec_sum = (z3.Sum([_real(t) for t in spec_terms]) if len(spec_terms) > 1 else (_real(spec_terms[0]) if spec_terms else z3.RealVal(0))) + rv(spec_const)
        self.claim = within(impl - self.spec_sum, tol)
        self.atoms = {}
        self.abs_lemmas = None
        self.nlemmas = 0
        self.failed_model = None

    def _ab(self, a):
        k = a.get_id()
        if k not in self.atoms:
            self.atoms[k] = (a, z3.Real("__atom%d" % len(self.atoms)))
        return self.atoms[k][1]

    def subs(self):
        return [(a, r) for a, r in self.atoms.values()]

    def lemmas(self):
        """prove the group lemmas under the path condition; True when all are proved"""
        I, res = self.ob.I, self.ob.res
        ia = addends(self.impl)
        sa = addends(self.spec_sum)
        groups = {}
        for c, a in ia:
            key = z3_consts(a) if a is not None else frozenset()
            groups.setdefault(key, [[], []])[0].append((c, a))
        keys = sorted(groups, key=len)
        for c, a in sa:
            key = z3_consts(a) if a is not None else frozenset()
            tgt = key if key in groups else next((k for k in keys if key <= k), None)
            if tgt is None:
                groups.setdefault(key, [[], []])
                tgt = key
            groups[tgt][1].append((c, a))
        ng = len(groups)
        if ng <= 1 and not any(len(gi) > 1 and len(gs) > 1 for gi, gs in groups.values()):
            return False

        def tot(lst, abstract):
            ts = [(rv(c) * (self._ab(a) if abstract else _real(a)) if a is not None else rv(c)) for c, a in lst]
            return z3.Sum(ts) if len(ts) > 1 else (ts[0] if ts else z3.RealVal(0))
        abs_lemmas = []

        def prove_lemma(gi, gs, tol):
            lem = within(tot(gi, False) - tot(gs, False), tol)
            I.solver.push()
            I.solver.add(z3.Not(lem))
            t0 = time.time()
            r = I.solver.check()
            res["solver_s"] += time.time() - t0
            mdl = I.solver.model() if r == z3.sat else None
            I.solver.pop()
            return r == z3.unsat, mdl
        for key, (gi, gs) in groups.items():
            if len(gi) > 1 and len(gs) > 1:
                # several addends over the same variables on both sides (e.g. one entropy term per alphabet letter):
                # bucket them by a numeric fingerprint (values under a few concrete assignments) and prove each bucket
                # as its own small lemma; whatever does not pair up forms one residual bucket
                buckets = self._buckets(key, gi, gs)
                if buckets is not None and len(buckets) > 1:
                    okall = True
                    tol1 = Fraction(self.tol) / ng / len(buckets)
                    for bi, bs in buckets:
                        ok, mdl = prove_lemma(bi, bs, tol1)
                        if not ok:
                            okall = False
                            break
                        self.nlemmas += 1
                        abs_lemmas.append(within(tot(bi, True) - tot(bs, True), tol1))
                    if okall:
                        continue
                    self.nlemmas = max(0, self.nlemmas)
            ok, mdl = prove_lemma(gi, gs, Fraction(self.tol) / ng)
            if not ok:
                self.failed_model = mdl
                return False
            self.nlemmas += 1
            abs_lemmas.append(within(tot(gi, True) - tot(gs, True), Fraction(self.tol) / ng))
        self.abs_lemmas = abs_lemmas
        return True

    def _buckets(self, key, gi, gs):
        import random as _r
        names = sorted(key)
        if not names:
            return None
        rng = _r.Random(len(names) * 7919 + len(gi))
        probes = []
        for _ in range(3):
            probes.append([(z3.Int(n), z3.IntVal(rng.randrange(0, 20))) for n in names])
        for l in range(20):
            # structured probes: alternate value l and l+1 over the variables, so that addends keyed to one input value differ
            probes.append([(z3.Int(n), z3.IntVal(l if i % 2 == 0 else (l + 1) % 20)) for i, n in enumerate(names)])

        def fp(c, a):
            out = []
            for pr in probes:
                v = z3.simplify(z3.substitute(_real(a), *pr)) if a is not None else z3.RealVal(1)
                if not z3.is_rational_value(v) and not z3.is_int_value(v):
                    return None
                fr = Fraction(v.as_long()) if z3.is_int_value(v) else v.as_fraction()
                out.append(round(float(c * fr), 10))
            return tuple(out)
        bi, bs = {}, {}
        for c, a in gi:
            f = fp(c, a)
            if f is None:
                return None
            bi.setdefault(f, []).append((c, a))
        for c, a in gs:
            f = fp(c, a)
            if f is None:
                return None
            bs.setdefault(f, []).append((c, a))
        out = []
        ri, rs = [], []
        for f in set(bi) | set(bs):
            if f in bi and f in bs:
                out.append((bi[f], bs[f]))
            else:
                ri += bi.get(f, [])
                rs += bs.get(f, [])
        if ri or rs:
            out.append((ri, rs))
        return out

    def derive(self, claim, label, cex, extra_abs=()):
        """prove `claim` from the proved lemmas with the addend atoms abstracted to fresh reals; falls back to the
        monolithic query under the path condition"""
        res = self.ob.res
        if self.abs_lemmas is not None:
            s2 = z3.Solver()
            s2.set("timeout", 60000)
            for l in self.abs_lemmas:
                s2.add(l)
            for l in extra_abs:
                s2.add(z3.substitute(l, *self.subs()))
            s2.add(z3.Not(z3.substitute(claim, *self.subs())))
            t0 = time.time()
            r = s2.check()
            res["solver_s"] += time.time() - t0
            if r == z3.unsat:
                res["obligations"] += 1
                res["discharged"] += 1
                return True
            res["notes"].append("summand cut: abstract derivation not unsat (%s) for %s; monolithic query used" % (r, label))
        return self.ob.prove(claim, label, cex)


def prove_sum_close(ob, impl, spec_terms, tol, label, cex, spec_const=0, want_cut=False):
    """prove |impl - (sum(spec_terms)+spec_const)| <= tol on the current path.
    Summand-wise cut: addends of impl and spec are grouped by the set of input variables they mention; each group
    closeness is a small lemma query under the path condition; the full claim is then derived from the proved lemmas
    by a linear-arithmetic query in which the (ite-chain) atoms are abstracted to fresh reals (sound: abstraction only
    adds behaviours).  If any piece fails, the monolithic query decides."""
    res = ob.res
    cut = SumCut(ob, impl, spec_terms, tol, spec_const)
    ok = None
    try:
        if cut.lemmas():
            res["obligations"] += cut.nlemmas
            res["discharged"] += cut.nlemmas
            ok = cut.derive(cut.claim, label, cex)
        elif cut.failed_model is not None and z3.is_false(cut.failed_model.eval(cut.claim, model_completion=True)):
            # the failing lemma's model already falsifies the full claim
            c = cex(cut.failed_model) if cex else None
            if c is not None:
                res["obligations"] += 1
                res["sat"] += 1
                c.setdefault("label", label)
                res["candidates"].append(c)
                ok = False
    except Exception as ex:   # decomposition is an optimisation only
        res["notes"].append("summand cut not applied (%s: %s)" % (type(ex).__name__, ex))
        cut.abs_lemmas = None
    if ok is None:
        ok = ob.prove(cut.claim, label, cex)
    return (ok, cut) if want_cut else ok


def abstract_ites(exprs):
    """replace every maximal ite-subterm by a fresh constant (same term -> same constant)"""
    memo = {}
    fresh = {}

    def go(e):
        k = e.get_id()
        if k in memo:
            return memo[k]
        if z3.is_app(e) and e.decl().kind() == z3.Z3_OP_ITE:
            r = z3.Const("__ite%d" % len(fresh), e.sort())
            fresh[k] = r
        elif z3.is_app(e) and e.num_args() > 0:
            ch = [go(c) for c in e.children()]
            r = e.decl()(*ch)
        else:
            r = e
        memo[k] = r
        return r
    return [go(e) for e in exprs]


def prove_via_lemmas(ob, claim, lemmas, label, cex):
    """prove each lemma under the path condition (small queries), then derive the claim from the lemmas alone by a
    query in which ite-terms are opaque constants (sound over-approximation).  Falls back to the monolithic query."""
    I, res = ob.I, ob.res
    ok = True
    n = 0
    for lem in lemmas:
        I.solver.push()
        I.solver.add(z3.Not(lem))
        t0 = time.time()
        r = I.solver.check()
        res["solver_s"] += time.time() - t0
        I.solver.pop()
        if r != z3.unsat:
            ok = False
            break
        n += 1
    if ok:
        ab = abstract_ites(list(lemmas) + [claim])
        s2 = z3.Solver()
        s2.set("timeout", 60000)
        for l in ab[:-1]:
            s2.add(l)
        s2.add(z3.Not(ab[-1]))
        t0 = time.time()
        r = s2.check()
        res["solver_s"] += time.time() - t0
        if r == z3.unsat:
            res["obligations"] += n + 1
            res["discharged"] += n + 1
            return True
        res["notes"].append("lemma combination not unsat (%s) for %s; monolithic query used" % (r, label))
    return ob.prove(claim, label, cex)


# ---------------------------------------------------------------------------
# history prelude: a fixed series of native API calls on *other* objects, run before the symbolic execution of an item
# so that state shared between objects (module-level caches, mutated tables, shared default arguments) is in a used state.
# The prelude is a function of (N, a, b) only and is recorded in every counterexample so that replays re-run it.
# ---------------------------------------------------------------------------
def std_prelude(N, a=None, b=None):
    if a is None:
        a, b = max(1, N // 3), max(0, N // 4)
        a, b = min(a, N), min(b, max(0, N - a))
    n0 = N - a - b
    seqs = []
    for extra in (2, 9):
        seqs.append("K" * a + "E" * b + "G" * (n0 + extra))                      # same charge counts, other lengths
    seqs.append(("R" * a + "D" * b + "S" * n0)[::-1])                             # same composition and length, other spelling/arrangement
    seqs.append("D" * a + "K" * b + "A" * n0)                                     # charge-inverted composition
    seqs += ["KEKEKEGGSPQRD", "MSTYPLLW"]
    return [q for q in seqs if q]


PRELUDE_CALLS = [("get_delta", ()), ("get_kappa", ()), ("get_deltaMax", (True,)), ("get_SCD", ()), ("get_Omega", ()), ("get_phasePlotRegion", ()),
                 ("get_mean_hydropathy", ()), ("get_linear_NCPR", (1,)), ("get_linear_FCR", (1,)), ("get_linear_sigma", (1,)),
                 ("get_reduced_alphabet_sequence", (8,)), ("get_linear_sequence_composition", (1,)), ("get_isoelectric_point", ())]


def run_prelude(seqs):
    from localcider.sequenceParameters import SequenceParameters
    for q in seqs or []:
        try:
            sp = SequenceParameters(q)
        except Exception:
            continue
        for name, args in PRELUDE_CALLS:
            try:
                getattr(sp, name)(*args)
            except Exception:
                pass


# ---------------------------------------------------------------------------
# structural symbolic equality of results (numbers with tolerance)
# ---------------------------------------------------------------------------
def sym_equal(I, a, b, tol=1e-9):
    """truth value (bool | z3 Bool) of a == b for nested results: numbers (tolerance), strings, lists/tuples, dicts, arrays"""
    import numpy as np, ast as _ast
    def norm(x):
        if isinstance(x, tuple) and len(x) == 2 and isinstance(x[0], str) and x[0] == "__vstack__":
            return [list(r) for r in x[1]]
        if isinstance(x, np.ndarray):
            return x.tolist()
        if isinstance(x, SymArray):
            return list(x.items)
        if has_gitems(x):
            return as_glist(x)
        return pyscalar(x)
    a, b = norm(a), norm(b)
    if a is b:
        return True
    if isinstance(a, (str, SymStr)) or isinstance(b, (str, SymStr)):
        if not (isinstance(a, (str, SymStr)) and isinstance(b, (str, SymStr))):
            if isinstance(a, FD) or isinstance(b, FD):
                return I.truth(I.binop(_ast.Eq(), a, b))
            return False
        try:
            parts = I.str_eq_parts(a, b)
        except Unsupported:
            return None
        ts = [I.truth(p) for p in parts]
        if any(t is False for t in ts):
            return False
        ts = [zbool(t) for t in ts if t is not True]
        return z3.And(*ts) if ts else True
    if isinstance(a, GList) or isinstance(b, GList):
        if not (isinstance(a, GList) and isinstance(b, GList)) or len(a.items) != len(b.items):
            return None
        ts = []
        for (g1, v1), (g2, v2) in zip(a.items, b.items):
            e = sym_equal(I, v1, v2, tol)
            if e is None:
                return None
            ts.append(z3.And(zbool(g1) == zbool(g2), z3.Implies(zbool(g1), zbool(e))))
        return z3.And(*ts) if ts else True
    if isinstance(a, (list, tuple)) and isinstance(b, (list, tuple)):
        if len(a) != len(b) or (isinstance(a, tuple) != isinstance(b, tuple)):
            return False
        ts = []
        for x, y in zip(a, b):
            e = sym_equal(I, x, y, tol)
            if e is None:
                return None
            if e is False:
                return False
            if e is not True:
                ts.append(zbool(e))
        return z3.And(*ts) if ts else True
    if isinstance(a, dict) and isinstance(b, dict):
        if list(a.keys()) != list(b.keys()):
            return False
        return sym_equal(I, list(a.values()), list(b.values()), tol)
    if a is None or b is None:
        return a is b
    na = is_sym(a) or isinstance(a, (int, float))
    nb = is_sym(b) or isinstance(b, (int, float))
    if na and nb and not isinstance(a, bool) and not isinstance(b, bool):
        if not is_sym(a) and not is_sym(b):
            return abs(float(a) - float(b)) <= tol
        try:
            za = zreal(a) if is_sym(a) else rv(float(a))
            zb = zreal(b) if is_sym(b) else rv(float(b))
        except Unsupported:
            return I.truth(I.binop(_ast.Eq(), a, b))
        if za.eq(zb):
            return True
        return within(za - zb, tol)
    if is_sym(a) or is_sym(b):
        return I.truth(I.binop(_ast.Eq(), a, b))
    try:
        return bool(a == b)
    except Exception:
        return None



def fallback_seqs(item, k=24):
    """sample sequences for an item (composition-fixed when the item has npos/nneg), deterministic; charge-rich first"""
    import itertools
    rng = random.Random(str(sorted((k_, str(v)) for k_, v in item.items() if k_ in ("N", "npos", "nneg", "name"))))
    N = item.get("N", 0)
    if not N or N < 1:
        return []
    if "npos" in item:
        return comp_samples(rng, N, item["npos"], item["nneg"], k)
    out = []
    if 3 ** N <= k:
        out = ["".join(p) for p in itertools.product("KEG", repeat=N)]
    else:
        for _ in range(k // 2):
            out.append("".join(rng.choice("KEDRGS") for _ in range(N)))
    return out + sample_seqs(rng, N, max(2, k - len(out)))
